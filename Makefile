.PHONY: setup sany clean
setup: sany
	@mkdir -p build evidence replays
	@echo setup ok
sany:
	@/venv/bin/python -m harness.sanyall
clean:
	rm -rf build
