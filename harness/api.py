"""Observe the three public parse entry points of a class on one buffer."""
import os
import traceback

from .project import project
from .common import digest

REPO_PKG = os.sep + 'cryptoparser' + os.sep


def _doc_name(e):
    from cryptoparser.common.exception import NotEnoughData, TooMuchData, InvalidType
    from cryptodatahub.common.exception import InvalidValue
    for c in (NotEnoughData, TooMuchData, InvalidType, InvalidValue):
        if isinstance(e, c):
            return c.__name__
    return type(e).__name__


def site_of(e):
    """innermost frame inside cryptoparser: 'common/parse.py:parse_ssh_mpint'"""
    tb = traceback.extract_tb(e.__traceback__)
    for fr in reversed(tb):
        if '/cryptoparser/' in fr.filename and '/site-packages/' not in fr.filename:
            return fr.filename.split('/cryptoparser/', 1)[1] + ':' + fr.name
    return 'outside'


class _CallDeadline(BaseException):
    """a library call that does not come back within CALL_DEADLINE seconds: an outcome (reported as 'DoesNotReturn'), never a hung check"""


CALL_DEADLINE = float(os.environ.get('VERIF_CALL_DEADLINE', '60'))
_depth = [0]


def _on_alarm(signum, frame):
    raise _CallDeadline()


def call(fn, arg):
    import signal
    import threading
    outermost = _depth[0] == 0 and threading.current_thread() is threading.main_thread() and signal.getitimer(signal.ITIMER_REAL)[0] == 0
    _depth[0] += 1
    if outermost:
        old = signal.signal(signal.SIGALRM, _on_alarm)
        signal.setitimer(signal.ITIMER_REAL, CALL_DEADLINE)
    try:
        try:
            return 'ok', fn(arg), None
        except RecursionError as e:
            return 'RecursionError', None, 'recursion'
        except Exception as e:  # pylint: disable=broad-except
            return _doc_name(e), None, site_of(e)
        finally:
            if outermost:
                signal.setitimer(signal.ITIMER_REAL, 0)
    except _CallDeadline:
        return 'DoesNotReturn', None, 'deadline'
    finally:
        _depth[0] -= 1
        if outermost:
            signal.setitimer(signal.ITIMER_REAL, 0)
            signal.signal(signal.SIGALRM, old)


def dig(obj):
    try:
        return digest(project(obj))
    except Exception as e:  # pylint: disable=broad-except
        return 'unprojectable:' + type(e).__name__


def _n(v):
    return v if isinstance(v, int) and not isinstance(v, bool) and abs(v) < 2000000000 else -999


def observe(cls, data, unit='', positive=False, suffixes=()):
    data = bytes(data)
    b = bytearray(data)
    out1, res, site1 = call(cls.parse_immutable, b)
    ev = {'ev': 'api', 'cls': cls.__module__.replace('cryptoparser.', '') + '.' + cls.__qualname__, 'unit': unit,
          'len': len(data), 'positive': bool(positive), 'must': False, 'head': list(data[:260] if unit == 'SshBanner' else data[:12]),
          'imm': {'out': out1, 'n': 0, 'unchanged': bytes(b) == data}, 'site': site1 or ''}
    obj = None
    d1 = None
    n = 0
    if out1 == 'ok':
        try:
            obj, n = res
        except Exception:  # pylint: disable=broad-except
            obj, n = res, -999
        n = _n(n)
        ev['imm']['n'] = n
        d1 = dig(obj)
    b2 = bytearray(data)
    out2, obj2, site2 = call(cls.parse_mutable, b2)
    ev['mut'] = {'out': out2, 'after': len(b2), 'tail_ok': out1 == 'ok' and bytes(b2) == data[max(n, 0):],
                 'unchanged': bytes(b2) == data, 'same': out2 == 'ok' and d1 is not None and dig(obj2) == d1}
    out3, obj3, site3 = call(cls.parse_exact_size, data)
    ev['exact'] = {'out': out3, 'same': out3 == 'ok' and d1 is not None and dig(obj3) == d1}
    ev['sites'] = [s for s in (site1, site2, site3) if s]
    ev['reparse'] = []
    if unit and out1 == 'ok' and 0 < n <= len(data):
        for suf in (b'',) + tuple(suffixes):
            o, r, _ = call(cls.parse_immutable, data[:n] + suf)
            if o == 'ok':
                ev['reparse'].append({'out': o, 'n': _n(r[1]), 'same': dig(r[0]) == d1})
            else:
                ev['reparse'].append({'out': o, 'n': 0, 'same': False})
    return ev, obj
