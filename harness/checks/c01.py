"""C01 - compose then parse returns the same message and consumes every byte."""
import enum

from .. import corpus, judge, objects, variants
from ..api import call, dig, _n
from ..common import digest

LEVEL = 'exploration'
_TEMPLATES = {}


def roundtrip_event(cls, obj, origin):
    out, wire, _ = call(lambda o: o.compose(), obj)
    ev = {'ev': 'rt', 'cls': cls.__module__.replace('cryptoparser.', '') + '.' + cls.__qualname__, 'origin': origin,
          'compose': out, 'wire_len': 0, 'parse': '-', 'n': 0, 'p': dig(obj), 'back': '-', 'eq_ok': True, 'eq_converse': False}
    if out == 'ok':
        try:
            data = bytes(wire)
        except Exception:  # pylint: disable=broad-except
            ev['compose'] = 'not-bytes'
            return ev
        ev['wire_len'] = len(data)
        ev['hex'] = data[:200].hex()
        o2, res, _ = call(cls.parse_immutable, data)
        ev['parse'] = o2
        if o2 == 'ok':
            ev['n'] = _n(res[1])
            ev['back'] = dig(res[0])
            # the library's own notion of equality (for classes that define one): field-by-field equal objects compare
            # equal with ==, hash alike when hashable, and != is the negation
            try:
                import copy
                # ... where the library's == is meaningful at all: an object that is not even equal to its own deep copy has
                # parts that compare by identity, nothing can be said about it
                # (objects edited in place are left out: the size a vector tracks for a nested element that was edited behind
                # its back is stale and takes part in ==, which is the known limit of in-place edits, not of equality)
                if type(res[0]) is type(obj) and type(obj).__eq__ is not object.__eq__ and ev['back'] == ev['p'] and \
                        'inplace' not in origin and copy.deepcopy(obj) == obj:
                    eq = bool(res[0] == obj) and bool(obj == res[0]) and not bool(res[0] != obj)
                    try:
                        eq = eq and hash(res[0]) == hash(obj)
                    except TypeError:
                        pass
                    ev['eq_ok'] = eq
            except Exception:  # pylint: disable=broad-except
                ev['eq_ok'] = False
    return ev


def drive(arg):
    qual, seed, thorough = arg
    import random
    cls = corpus.resolve(qual)
    rng = random.Random('%s:%s' % (seed, qual))
    pool = objects.vector_item_pool()
    temps = _TEMPLATES.get(cls, [])
    events = []
    objs = [o for o, _ in temps]
    for obj, wire in temps[:6 if thorough else 3]:
        if isinstance(obj, enum.Enum):
            continue
        if type(obj) is not cls:
            continue     # variant/factory classes return objects of other classes: covered under their own class
        events.append(roundtrip_event(cls, obj, 'parsed'))
        for desc, var in variants.variants(obj, rng, pool, per_field=14 if thorough else 7, others=objs):
            ev = roundtrip_event(cls, var, 'variant:' + desc)
            # the converse for ==: a variant that differs from the template in a field value is not equal to it
            try:
                if type(var) is type(obj) and type(obj).__eq__ is not object.__eq__ and 'other-bytes-type' not in desc and \
                        not desc.startswith(('inplace', 'assigned-after-observing')) and ev['p'] != dig(obj) and (var == obj or not var != obj):
                    ev['eq_ok'] = False
                    ev['eq_converse'] = True
            except Exception:  # pylint: disable=broad-except
                pass
            events.append(ev)
        for k in variants.nested_parsables(obj)[:20]:
            if type(k).__module__.startswith('cryptoparser.') and hasattr(type(k), 'parse_immutable'):
                events.append(roundtrip_event(type(k), k, 'nested of ' + cls.__name__))
    return events


def run(rep):
    from ..par import pmap
    thorough = rep.tier == 'thorough'
    _TEMPLATES.clear()
    for cls, obj, wire in objects.templates():
        _TEMPLATES.setdefault(cls, []).append((obj, wire))
    objects.vector_item_pool()
    args = [(c.__module__ + '.' + c.__qualname__, rep.seed, thorough) for c in sorted(_TEMPLATES, key=lambda c: c.__module__ + c.__qualname__)]
    events = []
    for evs in pmap(drive, args):
        events += evs
    # objects no test vector parses to, built through the constructors by the generators of the wire checks: DNS keys of every kind
    # and size (RSA exponents of 1..300 octets, EC points with leading zero octets, ...), SSH keys and KEXINITs
    from . import c08, c07
    extra = 0
    for gen in (lambda: c08.generated(rep, False), lambda: c07.make_keys(rep.rng, False)):
        try:
            objs = gen()
        except Exception:  # pylint: disable=broad-except
            objs = []
        for o in objs:
            if isinstance(getattr(o, 'flags', None), list):
                import attr
                o = attr.evolve(o, flags=set(o.flags))          # the parser gives a set: the same collection type on both sides
            events.append(roundtrip_event(type(o), o, 'generated'))
            extra += 1
    rep.extra['generated_objects'] = extra
    for e in events:
        rep.case(digest([e['cls'], e['p']]), nontrivial=e['compose'] == 'ok')
    rep.extra['classes'] = len({e['cls'] for e in events})
    rep.extra['with_wire_form'] = sum(1 for e in events if e['compose'] == 'ok')
    rep.extra['no_wire_form'] = sum(1 for e in events if e['compose'] != 'ok')
    rep.rule = ('objects: every object parsed from the corpus, every nested parsable value of it (round-tripped under its own '
                'class), and field-by-field variations built with attr.evolve through the own converters and validators of the class '
                '(every enum member, flipped booleans, boundary integers, empty/longer/reversed vectors, empty/long byte and text '
                'strings incl. 255/256/600 characters, aware datetimes with offsets, optional fields absent/present). A case is '
                'distinct by (class, projection digest); non-trivial = compose() produced bytes.')
    rep.sample({k: v for k, v in events[0].items()})
    rep.sample({k: v for k, v in [e for e in events if e['origin'].startswith('variant')][3].items()})
    traces = [events[i:i + 3000] for i in range(0, len(events), 3000)]
    verdicts = list(judge.run(rep, 'Trace_RoundTrip', list(enumerate(traces)), 'rt'))
    failing = {(e['cls'], tup[1], e['origin']) for tup, ti, ei, e in verdicts}
    for tup, ti, ei, e in verdicts:
        clause = tup[1]
        origin = e['origin']
        # the twin "observe first, then assign" of a constructor variant that fails the same clause is the same finding
        if origin.startswith('variant:assigned-after-observing:') and \
                (e['cls'], clause, origin.replace('assigned-after-observing:', '')) in failing:
            continue
        field = origin.replace('variant:', '') if origin.startswith('variant:') else origin.split(' ')[0]
        rep.violation('%s|%s|%s' % (e['cls'], clause, field), '%s: %s (%s; compose %s, parse %s n=%s of %s)' % (
            e['cls'], clause, e['origin'], e['compose'], e['parse'], e['n'], e['wire_len']), e)
    rep.assumptions += ['"constructible" = accepted by the class constructor (attr.evolve); a compose() that raises one of the four '
                        'documented errors means the object has no wire form (trivial case)']


def replay(rep, path):
    run(rep)
