"""C02 - parsing untrusted bytes fails only with the documented parse errors."""
from .. import corpus, judge, api
from ..mutate import mutants
from ..common import digest

LEVEL = 'exploration'


def degenerate(rng):
    yield b''
    for b in (0, 1, 0x7f, 0x80, 0xff, 0x30, 0x0a, 0x20):
        yield bytes([b])
    for n in (2, 3, 4, 5, 8, 9, 16, 64, 300):
        yield b'\xff' * n
        yield b'\x00' * n
        yield bytes(rng.randrange(256) for _ in range(n))
    yield b'\x00\x00\x00\x04' + b'\x80' * 4
    yield b'\xff\xff\xff\xff'
    yield b'\r\n\r\n'
    yield 'héllo: wörld\r\n'.encode('utf-8')
    yield b'\xc3\x28\r\n'


def drive(arg):
    qual, seed, per_seed, thorough = arg
    import random
    cls = corpus.resolve(qual)
    rng = random.Random('%s:%s' % (seed, qual))
    lib = corpus.by_class()
    allseeds = _ALLSEEDS
    seeds = lib.get(cls, [])
    inputs = []
    for sd in seeds:
        if len(sd) > 3000 and not thorough:
            continue
        inputs.append(sd)
        inputs += mutants(sd, rng, per_seed, others=[rng.choice(allseeds)])
    inputs += list(degenerate(rng))
    seen = set()
    events = []
    for data in inputs:
        if data in seen:
            continue
        seen.add(data)
        ev, _ = api.observe(cls, data)
        ev['head'] = []
        ev['hex'] = data.hex() if len(data) <= 400 else data[:400].hex() + '...'
        ev['dg'] = digest([ev['cls'], data.hex()])
        events.append(ev)
    return events


_ALLSEEDS = []


def run(rep):
    from ..par import pmap
    thorough = rep.tier == 'thorough'
    lib = corpus.by_class()
    per_seed = 250 if thorough else 30
    classes = [c for c in corpus.concrete_parsables() if lib.get(c)]   # every class with an accepted seed
    _ALLSEEDS[:] = [d for ds in lib.values() for d in ds]
    args = [(c.__module__ + '.' + c.__qualname__, rep.seed, per_seed, thorough) for c in classes]
    events = []
    for evs in pmap(drive, args):
        events += evs
    for e in events:
        rep.case(e['dg'])
    driven = len(classes)
    rep.rule = ('one case = one (class, byte string) given to parse_immutable, parse_mutable and parse_exact_size: every '
                'accepted corpus input of the class, %d mutants of each (truncation, trailing bytes, header/length-field '
                'corruption, bit flips, insert/delete/duplicate/splice, broken UTF-8), and degenerate inputs (empty, single '
                'bytes, all-0xff, huge declared lengths); every concrete parsable class is driven. Distinct by (class, bytes).'
                % per_seed)
    rep.extra['classes_driven'] = driven
    rep.extra['accepted'] = sum(1 for e in events if e['imm']['out'] == 'ok')
    outs = {}
    for e in events:
        outs[e['imm']['out']] = outs.get(e['imm']['out'], 0) + 1
    rep.extra['outcome_histogram'] = outs
    rep.sample({k: events[0][k] for k in ('cls', 'hex', 'imm', 'exact')})
    rej = [e for e in events if e['imm']['out'] not in ('ok',)]
    if rej:
        rep.sample({k: rej[len(rej) // 2][k] for k in ('cls', 'hex', 'imm', 'exact')})
    slim = []
    for e in events:
        s = {k: e[k] for k in ('ev', 'cls', 'unit', 'len', 'positive', 'must', 'imm', 'mut', 'exact', 'reparse')}
        s['head'] = []
        slim.append(s)
    traces = [slim[i:i + 4000] for i in range(0, len(slim), 4000)]
    for tup, ti, ei, _ in judge.run(rep, 'Trace_ParseApi', list(enumerate(traces)), 'leak', tags=('LEAK',)):
        ev = events[ti * 4000 + ei]
        leaks = sorted({(o, s) for o, s in ((ev['imm']['out'], ev['site']),) if o not in
                        ('ok', 'NotEnoughData', 'TooMuchData', 'InvalidValue', 'InvalidType')})
        # all three entry points are judged; name the one that leaked
        for entry in ('imm', 'mut', 'exact'):
            o = ev[entry]['out']
            if o not in ('ok', 'NotEnoughData', 'TooMuchData', 'InvalidValue', 'InvalidType'):
                site = ev['sites'][0] if ev['sites'] else 'unknown'
                rep.violation('parse|%s|%s' % (o, site),
                              '%s leaks %s (raised in %s)' % (ev['cls'], o, site),
                              {'class': ev['cls'], 'entry': entry, 'exception': o, 'site': site, 'input_hex': ev['hex']})
                break
    rep.assumptions += ['"documented" = NotEnoughData, TooMuchData, InvalidType (cryptoparser) and InvalidValue '
                        '(cryptodatahub) and their subclasses']


def replay(rep, path):
    import json
    from ..corpus import resolve
    with open(path) as f:
        case = json.load(f)['case']
    cls = resolve('cryptoparser.' + case['class'])
    data = bytes.fromhex(case['input_hex'].rstrip('.'))
    ev, _ = api.observe(cls, data)
    print(ev['imm'], ev['exact'], ev['sites'])
    run(rep)
