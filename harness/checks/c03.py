"""C03 - reported consumed length is exact and framing units are self-delimiting."""
import inspect

from .. import tlc, corpus, frames as framesmod, judge, api
from ..mutate import mutants
from ..common import digest

LEVEL = 'model_checking'


def unit_map(rng):
    """class -> (unit, frames) for every stream framing unit class"""
    from cryptoparser.tls import subprotocol as S
    m = {}
    for u in framesmod.units(rng):
        m.setdefault(u['cls'], (u['unit'], []))[1].extend(u['frames'])
        _MUST.update(u.get('must', ()))
    # each concrete handshake class is itself a framing unit (type + 24-bit length)
    for cls in corpus.concrete_parsables():
        if issubclass(cls, S.TlsHandshakeMessage) and not inspect.isabstract(cls):
            m.setdefault(cls, ('TlsHandshake', []))
    return m


_UMAP = {}
_MUST = set()
_ALLSEEDS = []


def drive(arg):
    qual, seed, per_seed, thorough = arg
    import random
    cls = corpus.resolve(qual)
    rng = random.Random('%s:%s' % (seed, qual))
    lib = corpus.by_class()
    unit, frs = _UMAP.get(cls, ('', []))
    seeds = list(dict.fromkeys(list(lib.get(cls, [])) + list(frs)))
    if not thorough and len(seeds) > 12:
        musts = [x for x in seeds[6:] if x in _MUST][:6]
        seeds = list(dict.fromkeys(seeds[:6] + musts + rng.sample(seeds[6:], 6)))
    events = []
    for seed_bytes in seeds:
        if len(seed_bytes) > 3000 and not thorough:
            continue
        other = rng.choice(frs) if frs else rng.choice(_ALLSEEDS)
        # ... and a long one: what follows a frame in the buffer may be much longer than the frame (limits that are meant for
        # the frame must not be applied to the buffer)
        suffixes = (b'\x00', bytes(rng.randrange(256) for _ in range(5)), seed_bytes, other,
                    bytes(rng.randrange(1, 256) for _ in range(700))) if unit else ()
        inputs = [seed_bytes] + mutants(seed_bytes, rng, per_seed, others=[other])
        for data in inputs:
            ev, _ = api.observe(cls, data, unit=unit, positive=bool(unit), suffixes=suffixes)
            ev['must'] = data is seed_bytes and data in _MUST
            ev['dg'] = digest([ev['cls'], data.hex()])
            ev['hex'] = data.hex() if len(data) <= 400 else data[:400].hex() + '...'
            events.append(ev)
    return events


def run_api(rep, thorough):
    from ..par import pmap
    rng = rep.rng
    lib = corpus.by_class()
    _UMAP.clear()
    _UMAP.update(unit_map(rng))
    _ALLSEEDS[:] = [d for ds in lib.values() for d in ds]
    per_seed = 60 if thorough else 10
    classes = sorted(set(lib) | set(_UMAP), key=lambda c: c.__module__ + c.__qualname__)
    classes = [c for c in classes if isinstance(c, type) and hasattr(c, 'parse_immutable')]
    args = [(c.__module__ + '.' + c.__qualname__, rep.seed, per_seed, thorough) for c in classes]
    events = []
    for evs in pmap(drive, args):
        events += evs
    for e in events:
        rep.case(e['dg'])
    rep.extra['classes_driven'] = len(classes)
    rep.extra['accepted'] = sum(1 for e in events if e['imm']['out'] == 'ok')
    rep.extra['framing_unit_classes'] = sorted({e['cls'] for e in events if e['unit']})
    rep.sample({k: events[0][k] for k in ('cls', 'len', 'imm', 'mut', 'exact')})
    ok_frames = [e for e in events if e['unit'] and e['imm']['out'] == 'ok']
    if ok_frames:
        rep.sample({k: ok_frames[0][k] for k in ('cls', 'unit', 'len', 'head', 'imm', 'reparse')})
    traces = [events[i:i + 3000] for i in range(0, len(events), 3000)]
    for tup, ti, ei, ev in judge.run(rep, 'Trace_ParseApi', list(enumerate(traces)), 'api', tags=('BAD',)):
        clause = tup[1]
        data_key = ev['cls'] + '|' + clause
        rep.violation('%s|%s|%s' % (ev['cls'], clause, ev['unit'] or 'parse'),
                      '%s: %s (buffer of %d bytes, immutable %s n=%s, exact %s)' % (
                          ev['cls'], clause, ev['len'], ev['imm']['out'], ev['imm']['n'], ev['exact']['out']),
                      {'event': ev})


def run(rep):
    thorough = rep.tier == 'thorough'
    rep.rule = ('one case = one (class, buffer): accepted corpus inputs of every class, the frames of every framing unit, '
                'and mutants of each (truncations, trailing bytes, header-byte and length-field corruption, random byte '
                'edits, splices); all three entry points are called on each buffer and, for framing units, the consumed '
                'prefix is re-parsed alone and with five different suffixes (one of 700 bytes). Distinct by (class, buffer).')
    from . import c03_engine
    c03_engine.run_engine(rep, thorough)
    c03_engine.run_dispatch(rep, thorough)
    run_api(rep, thorough)
    rep.assumptions += ['object equality is equality of projections (harness/project.py)',
                        'DeclaredLen in Framing.tla is my reading of the protocol documents']


def replay(rep, path):
    run(rep)
