def run_engine(rep, thorough):
    pass
