"""Engine part of C03: the as-coded ParserBinary model (MC) and primitive-level traces of the real engine."""
from .. import tlc, corpus, judge, engine_trace
from ..mutate import mutants
from ..api import call

_ALLSEEDS = []


def drive(arg):
    qual, seed, per_seed, limit = arg
    import random
    cls = corpus.resolve(qual)
    rng = random.Random('eng:%s:%s' % (seed, qual))
    lib = corpus.by_class()
    engine_trace.install()
    del engine_trace.EVENTS[:]
    engine_trace.LIMIT[0] = limit
    try:
        for sd in lib.get(cls, [])[:4]:
            if len(sd) > 1500:
                continue
            for data in [sd] + mutants(sd, rng, per_seed, others=[rng.choice(_ALLSEEDS)])[:per_seed * 6]:
                call(cls.parse_immutable, data)
                if len(engine_trace.EVENTS) >= limit:
                    break
    finally:
        engine_trace.uninstall()
    evs = list(engine_trace.EVENTS)
    for e in evs:
        e['cls'] = qual.replace('cryptoparser.', '')
    del engine_trace.EVENTS[:]
    return evs


def run_engine(rep, thorough):
    from ..par import pmap
    res = tlc.require_ok(tlc.run('MC_ParserBinary', 'MC_ParserBinary', workers=8, timeout=600), 'MC_ParserBinary')
    rep.add_tlc(res, 'MC_ParserBinary (as-coded primitives: cursor in buffer, monotone, sound missing-byte count; all buffers <= 5 bytes over 4 letters, programs of <= 3 primitives)')
    r = tlc.run('MC_ParserBinary', 'MC_ParserBinary_prefix', workers=4, timeout=300)
    if 'CursorInBuffer' not in r.invariant_violated:
        rep.machinery('MC_ParserBinary_prefix: the pre-fix primitives were NOT rejected')
    rep.extra['engine_spec_mutant_rejected_by'] = r.invariant_violated
    lib = corpus.by_class()
    _ALLSEEDS[:] = [d for ds in lib.values() for d in ds]
    classes = [c for c in corpus.concrete_parsables() if lib.get(c)]
    limit = 4000 if thorough else 700
    args = [(c.__module__ + '.' + c.__qualname__, rep.seed, 30 if thorough else 8, limit) for c in classes]
    events = []
    for evs in pmap(drive, args):
        events += evs
    names = {}
    for e in events:
        names[e['name']] = names.get(e['name'], 0) + 1
    rep.extra['engine_primitive_events'] = names
    rep.evaluations += len(events)
    rep.distinct.update('prim|%s|%d' % (e['cls'], i) for i, e in enumerate(events[:5000]))
    if events:
        rep.sample({k: events[0][k] for k in ('cls', 'name', 'pos0', 'pos1', 'len', 'w', 'size', 'out', 'need')})
    slim = [{k: e[k] for k in ('name', 'pos0', 'pos1', 'len', 'w', 'count', 'size', 'big', 'hdr', 'nulat', 'out', 'need')} for e in events]
    traces = [slim[i:i + 8000] for i in range(0, len(slim), 8000)]
    for tup, ti, ei, _ in judge.run(rep, 'Trace_ParserBinary', list(enumerate(traces)), 'engine', max_lines=30000):
        e = events[ti * 8000 + ei]
        clause = tup[1]
        if tup[0] == 'DEV':
            rep.deviation('engine|%s|%s' % (clause, e['name']), 'the missing-byte count of a primitive differs from the as-coded model')
            continue
        rep.violation('engine:%s|%s|%s' % (e['name'], clause, e['cls']), 'primitive %s inside %s: %s (pos %s -> %s of %s, out %s need %s)' % (
            e['name'], e['cls'], clause, e['pos0'], e['pos1'], e['len'], e['out'], e['need']), e)


# ---------------------------------------------------------------------------------------------- variant dispatch
def dispatch_drive(arg):
    qual, seed, per_seed = arg
    import random
    from cryptoparser.common.base import VariantParsableExact
    from ..api import dig
    cls = corpus.resolve(qual)
    rng = random.Random('disp:%s:%s' % (seed, qual))
    lib = corpus.by_class()
    exact = issubclass(cls, VariantParsableExact)
    try:
        alts = list(cls._get_variant_types())          # pylint: disable=protected-access
    except Exception:  # pylint: disable=broad-except
        return []
    seeds = list(lib.get(cls, []))
    for a in alts:                                       # inputs of the alternatives are inputs of the variant
        seeds += list(lib.get(a, []))[:3]
    seeds = [s for s in dict.fromkeys(seeds) if len(s) <= 1500][:10]
    events = []

    def answer(fn, data):
        o, res, _ = call(fn, data)
        if o != 'ok':
            return {'out': o, 'n': 0, 'dg': '-'}
        if isinstance(res, tuple):
            return {'out': 'ok', 'n': res[1] if isinstance(res[1], int) else -1, 'dg': dig(res[0])}
        return {'out': 'ok', 'n': len(data), 'dg': dig(res)}
    for sd in seeds:
        for data in [sd] + mutants(sd, rng, per_seed, others=[rng.choice(_ALLSEEDS)])[:per_seed * 5]:
            outs = []
            for a in alts:
                x = answer(a.parse_exact_size if exact else a.parse_immutable, data)
                x['v'] = a.__name__
                outs.append(x)
            res = answer(cls.parse_immutable, data)
            events.append({'cls': qual.replace('cryptoparser.', ''), 'exact': exact, 'len': len(data), 'outs': outs, 'res': res,
                           'hex': data[:200].hex()})
    return events


def run_dispatch(rep, thorough):
    from ..par import pmap
    from cryptoparser.common.base import VariantParsableBase
    res = tlc.require_ok(tlc.run('MC_Dispatch', 'MC_Dispatch', workers=4, timeout=300, deadlock=False), 'MC_Dispatch')
    rep.add_tlc(res, 'MC_Dispatch (as-coded variant dispatchers: never "invalid type", one of the answers, stable behind the deciding alternative)')
    lib = corpus.by_class()
    _ALLSEEDS[:] = [d for ds in lib.values() for d in ds]
    classes = []
    for c in corpus.all_subclasses(VariantParsableBase):
        try:
            if c._get_variant_types():                   # pylint: disable=protected-access
                classes.append(c)
        except Exception:  # pylint: disable=broad-except
            continue
    classes = sorted(set(classes), key=lambda c: c.__module__ + c.__qualname__)
    events = []
    for evs in pmap(dispatch_drive, [(c.__module__ + '.' + c.__qualname__, rep.seed, 40 if thorough else 12) for c in classes]):
        events += evs
    rep.extra['variant_classes'] = len(classes)
    rep.extra['dispatch_events'] = len(events)
    rep.evaluations += len(events)
    rep.distinct.update('disp|%s|%s' % (e['cls'], e['hex']) for e in events)
    if events:
        rep.sample({k: events[0][k] for k in ('cls', 'exact', 'outs', 'res')})
    slim = [{k: e[k] for k in ('exact', 'len', 'outs', 'res')} for e in events]
    traces = [slim[i:i + 3000] for i in range(0, len(slim), 3000)]
    for tup, ti, ei, _ in judge.run(rep, 'Trace_Dispatch', list(enumerate(traces)), 'dispatch', max_lines=20000):
        e = events[ti * 3000 + ei]
        rep.violation('dispatch:%s|%s|%s' % (e['cls'], tup[1], 'variant'), 'variant dispatcher %s: %s (alternatives %s, dispatcher %s)' % (
            e['cls'], tup[1], [(o['v'], o['out'], o['n']) for o in e['outs']], (e['res']['out'], e['res']['n'])), e)
