"""C04 - incremental reads guided by the missing-byte count reassemble the stream."""
import os

from .. import tlc, frames as framesmod, judge
from ..common import digest

LEVEL = 'model_checking'


def outcome(cls, buf):
    """one parse_mutable attempt on the reader's buffer -> (out, n, need, obj)"""
    from cryptoparser.common.exception import NotEnoughData
    before = len(buf)
    try:
        obj = cls.parse_mutable(buf)
    except NotEnoughData as e:
        need = e.bytes_needed
        if not isinstance(need, int) or isinstance(need, bool):
            need = -1
        return 'NotEnoughData', 0, max(min(need, 2000000000), -2000000000), None
    except Exception as e:  # pylint: disable=broad-except
        return type(e).__name__, 0, 0, None
    return 'ok', before - len(buf), 0, obj


def reader_run(tid, unit, cls, frs, chunks):
    """the Stream reader loop on the real parser; mirrors the model's resynchronisation rules"""
    stream = b''.join(frs)
    lens = [len(f) for f in frs]
    events = [{'ev': 'begin', 'tid': tid, 'unit': unit, 'cls': cls.__name__, 'frames': lens,
               'heads': [list(f[:12]) for f in frs], 'chunks': chunks}]
    buf = bytearray()
    pos = 0
    want = 1
    got = 0
    same = True
    for k in chunks:
        buf += stream[pos:pos + k]
        pos += k
        events.append({'ev': 'deliver', 'k': k})
        while len(buf) >= want and (got < len(frs) or len(buf) > 0):
            b = len(buf)
            snapshot = bytes(buf)
            out, n, need, obj = outcome(cls, buf)
            events.append({'ev': 'try', 'buffered': b, 'out': out, 'n': n, 'need': need})
            if got >= len(frs):
                break
            L = lens[got]
            if b >= L:
                if out == 'ok':
                    try:
                        # the record that arrives is the record that was sent: equal to the frame parsed on its own (a frame
                        # in a non-canonical spelling, e.g. a padded SSL 2.0 record, need not recompose to the same bytes)
                        exp = cls.parse_exact_size(frs[got])
                        same = same and (obj == exp or bytes(obj.compose()) == bytes(exp.compose()))   # classes without __eq__
                    except Exception:  # pylint: disable=broad-except
                        same = False
                    if len(buf) != b - n:
                        same = False
                    if n != L:
                        buf[:] = snapshot[L:]   # resynchronise at the true frame boundary, like the model
                else:
                    buf[:] = snapshot[L:]       # resynchronise like the model: drop the frame
                got += 1
                want = 1
            else:
                if out == 'ok':
                    buf[:] = snapshot           # a prefix was accepted: restore, wait for one more byte
                    want = b + 1
                elif out == 'NotEnoughData' and 1 <= need <= L - b:
                    want = b + need
                else:
                    want = b + 1
                if len(buf) != b:
                    buf[:] = snapshot
                break
    events.append({'ev': 'end', 'got': got, 'left': len(buf), 'same': bool(same)})
    return events


def schedules(total, rng, quick):
    """delivery schedules for a stream of `total` bytes: every single cut, pairs of cuts, byte-wise, random"""
    out = [[total]] if total else []
    if total <= 1:
        return out
    npairs = 60 if quick else 600
    if total <= 3000:
        for c in range(1, total):
            out.append([c, total - c])
        out.append([1] * total)
    else:
        # long streams: cuts around the header, around the end and a sample in between (every cut and the byte-wise
        # schedule would cost total parses of up to total bytes each)
        for c in sorted(set(list(range(1, 40)) + list(range(total - 40, total)) + [rng.randrange(1, total) for _ in range(200)])):
            out.append([c, total - c])
    if (total - 1) * (total - 2) // 2 <= npairs:
        pairs = [(a, b) for a in range(1, total) for b in range(a + 1, total)]
    else:
        pairs = set()
        while len(pairs) < npairs:
            a, b = sorted((rng.randrange(1, total), rng.randrange(1, total)))
            if a != b:
                pairs.add((a, b))
        pairs = sorted(pairs)
    for a, b in pairs:
        out.append([a, b - a, total - b])
    sizes = [1, 2, 3, 7, 50] if total <= 3000 else [total // 200 + 1, total // 50 + 1, total // 7 + 1]
    for _ in range(10 if quick else 60):
        rest, ch = total, []
        while rest:
            k = rng.randint(1, max(1, min(rest, rng.choice(sizes))))
            ch.append(k)
            rest -= k
        out.append(ch)
    return out


def run_mc(rep, thorough):
    for cfg in ('contract', 'contract_free', 'typical'):
        res = tlc.run('MC_Stream', 'MC_Stream_' + cfg, workers=8, timeout=900, deadlock=False, coverage=(cfg == 'contract'))
        if not res.ok:
            if res.invariant_violated or res.temporal_violated or res.errors:
                rep.violation('Stream|model:%s|%s' % ((res.invariant_violated or ['property'])[0], cfg),
                              'the reader-loop design violates its specification', {'tlc': res.out[-3000:]})
                continue
            raise tlc.TlcError('MC_Stream_%s:\n%s' % (cfg, res.out[-2000:]))
        rep.add_tlc(res, 'MC_Stream_%s (safety + liveness under weak fairness, no state constraint)' % cfg)
        if cfg == 'contract':
            zero = [a for a in res.coverage_zero() if a in ('PeerWrite', 'Deliver', 'ReaderTry')]
            if zero:
                rep.machinery('MC_Stream: actions never taken: %s' % zero)
    rejected = {}
    for cfg in ('overask', 'overask_live', 'prefixaccept'):
        res = tlc.run('MC_Stream', 'MC_Stream_' + cfg, workers=4, timeout=600, deadlock=False)
        bad = res.invariant_violated or (['Progress'] if res.temporal_violated else [])
        if not bad:
            rep.machinery('MC_Stream_%s: the broken parser was NOT rejected' % cfg)
        rejected[cfg] = bad[0]
    rep.extra['spec_mutants_rejected'] = rejected


def run(rep):
    thorough = rep.tier == 'thorough'
    quick = not thorough
    rng = rep.rng
    rep.rule = ('MC: every interleaving of peer writes, deliveries (chunks 1..3) and reader tries for 4 abstract frames, '
                'every contract-conforming choice of the missing-byte count, lock-step and free-running peers, liveness '
                'under weak fairness. Implementation: real reader loop (parse_mutable on a growing bytearray) over streams '
                'of 1-3 real composed frames of every record layer, for every single cut position, sampled pairs of cuts, '
                'byte-wise and random schedules; plus every proper prefix of every frame. A case is one (stream, schedule) '
                'run or one (frame, prefix length); distinct by digest.')
    run_mc(rep, thorough)
    units = framesmod.units(rng, big=thorough)
    traces = []
    tid = 0
    prefix_events = []
    layers = {}
    for u in units:
        if not u['c04']:
            continue
        frs = u['frames']
        layers.setdefault(u['unit'], 0)
        # streams: each frame alone (short ones), and sequences of 2-3 frames
        streams = [[f] for f in frs if len(f) <= (400 if quick else 70000)][:8 if quick else 40]
        small = [f for f in frs if len(f) <= 80] or frs[:1]
        for _ in range(3 if quick else 12):
            streams.append([rng.choice(small) for _ in range(rng.choice([2, 3]))])
        streams.append([small[0], small[0]])
        # every frame (of every message class of the unit) once FOLLOWED by another one: a frame that swallows what
        # comes after it shows only then
        for f in [f for f in frs if len(f) <= (400 if quick else 70000)][:24 if quick else 80]:
            streams.append([f, small[(len(f) + len(streams)) % len(small)]])
        # ... and followed by MANY: more than 256 bytes already buffered behind a frame (a size at which a length stops fitting
        # one octet, and at which small-integer identity ends)
        heavy = set()
        for i, f in enumerate([f for f in frs if len(f) <= 400][:6 if quick else 10]):
            for room in (300,):          # (66000 bytes behind a frame made single TLC shards exceed their time limit)
                tail = []
                while sum(len(x) for x in tail) < room:
                    tail.append(small[(len(tail) + len(f)) % len(small)])
                streams.append([f] + tail)
                if room > 300:
                    heavy.add(len(streams) - 1)          # a thousand frames: a dozen schedules are enough
        for si, frs_ in enumerate(streams):
            total = sum(len(f) for f in frs_)
            scheds = schedules(total, rng, quick)
            if total > 120:
                scheds = scheds[:1] + rng.sample(scheds[1:], min(len(scheds) - 1, 12 if si in heavy else 40 if quick else 300))
            for ch in scheds:
                tid += 1
                t = reader_run(tid, u['unit'], u['cls'], frs_, ch)
                traces.append(t)
                layers[u['unit']] += 1
                rep.case(digest([u['unit'], [list(f) for f in frs_], ch]))
        # prefix formulation, exhaustive per frame
        for f in frs:
            ks = range(0, len(f) + 1) if len(f) <= 600 else sorted(set(list(range(0, 40)) + [len(f) - 1, len(f)] +
                                                                        [rng.randrange(len(f)) for _ in range(100)]))
            for k in ks:
                out, n, need, _ = outcome(u['cls'], bytearray(f[:k]))
                prefix_events.append({'ev': 'prefix', 'unit': u['unit'], 'cls': u['cls'].__name__, 'len': len(f),
                                      'k': k, 'out': out, 'need': need, 'n': n, 'head': list(f[:12])})
                rep.case(digest([u['unit'], list(f), k]))
    sender = []
    for unit, cname, size, thunk in framesmod.sender_probes():
        try:
            wire = bytes(thunk())
            o = 'ok'
        except Exception as e:  # pylint: disable=broad-except
            wire, o = b'', type(e).__name__
        sender.append({'ev': 'sender', 'unit': unit, 'cls': cname, 'size': size, 'out': o, 'len': len(wire), 'head': list(wire[:12])})
        rep.case(digest(['sender', unit, size]))
        del wire
    rep.extra['sender_probes'] = {'%s:%d' % (e['unit'], e['size']): e['out'] for e in sender}
    traces.append(sender)
    # prefix events form traces of their own (chunks of 2000 lines)
    for i in range(0, len(prefix_events), 2000):
        traces.append(prefix_events[i:i + 2000])
    rep.extra['runs_per_layer'] = layers
    rep.extra['prefix_cases'] = len(prefix_events)
    rep.sample(traces[1][:6])
    rep.sample(prefix_events[3])
    verdicts = judge.run(rep, 'Trace_Stream', list(enumerate(traces)), 'stream')
    for tup, ti, ei, ev in verdicts:
        clause = tup[1]
        t = traces[ti]
        if ev['ev'] in ('prefix', 'sender'):
            cls, unit = ev['cls'], ev['unit']
            case = ev
        else:
            cls, unit = t[0]['cls'], t[0]['unit']
            case = {'begin': t[0], 'events_up_to_failure': t[max(1, ei - 8):ei + 1], 'event_index': ei}
        if clause.startswith('harness-'):
            rep.machinery('reader-loop harness disagrees with the model: %s %s' % (tup, case))
        rep.violation('%s|%s|%s' % (cls, clause, unit), '%s (%s): %s' % (cls, unit, clause), case)
    # an invariant violation aborts a shard: handled in judge.run (errors) -> reported there
    rep.assumptions += ['frame boundaries are taken from compose() of the frames that were sent',
                        'the SSH identification string is line oriented (rejects a prefix with InvalidValue); the property '
                        'lists it under C03, it is excluded here']


def replay(rep, path):
    run(rep)
