"""C05 - re-serialising an accepted input is a stable canonical form."""
from .. import corpus, judge
from ..api import call, dig, _n
from ..mutate import mutants
from ..common import digest

LEVEL = 'exploration'
_ALLSEEDS = []


def canon_event(cls, data, origin):
    o1, res, _ = call(cls.parse_exact_size, data)
    if o1 != 'ok':
        return None
    obj1 = res
    ev = {'ev': 'canon', 'cls': cls.__module__.replace('cryptoparser.', '') + '.' + cls.__qualname__, 'origin': origin,
          'hex': data[:300].hex(), 'c1': '-', 'parse2': '-', 'n2': 0, 'len2': 0, 'same12': False, 'c2': '-', 'stable': False}
    c1, b2, _ = call(lambda o: o.compose(), obj1)
    ev['c1'] = c1
    if c1 != 'ok':
        return ev
    try:
        b2 = bytes(b2)
    except Exception:  # pylint: disable=broad-except
        ev['c1'] = 'not-bytes'
        return ev
    ev['len2'] = len(b2)
    ev['hex2'] = b2[:300].hex()
    p2, res2, _ = call(cls.parse_immutable, b2)
    ev['parse2'] = p2
    if p2 != 'ok':
        return ev
    obj2, n2 = res2
    ev['n2'] = _n(n2)
    ev['same12'] = dig(obj2) == dig(obj1)
    c2, b3, _ = call(lambda o: o.compose(), obj2)
    ev['c2'] = c2
    if c2 == 'ok':
        try:
            ev['stable'] = bytes(b3) == b2
        except Exception:  # pylint: disable=broad-except
            ev['stable'] = False
    return ev


def drive(arg):
    qual, seed, per_seed, thorough = arg
    import random
    import enum
    cls = corpus.resolve(qual)
    rng = random.Random('%s:%s' % (seed, qual))
    lib = corpus.by_class()
    events = []
    for sd in lib.get(cls, []):
        if len(sd) > 3000 and not thorough:
            continue
        inputs = [(sd, 'corpus')] + [(m, 'mutant') for m in mutants(sd, rng, per_seed, others=[rng.choice(_ALLSEEDS)])]
        inputs += [(t, 'respelling') for t in respellings(sd, rng)]
        inputs += [(t, 'generated') for t in generated(cls)]
        seen = set()
        for data, origin in inputs:
            if data in seen:
                continue
            seen.add(data)
            ev = canon_event(cls, data, origin)
            if ev is not None:
                if ev['c1'] == 'AttributeError' and isinstance(call(cls.parse_exact_size, data)[1], enum.Enum):
                    continue     # factories return enum members, which are composed through their containers
                events.append(ev)
    return events


def generated(cls):
    """TXT record data of chosen total lengths, split into character-strings in several ways (RFC 1035 3.3.14)"""
    if cls.__name__ != 'DnsRecordTxt':
        return []
    out = []
    for total in (0, 1, 254, 255, 256, 257, 509, 510, 511, 512, 600):
        text = bytes(0x61 + i % 26 for i in range(total))
        for chunk in (255, 200, 100):
            parts = [text[i:i + chunk] for i in range(0, max(total, 1), chunk)]
            out.append(b''.join(bytes([len(p)]) + p for p in parts))
    return out


def respellings(data, rng):
    """alternative spellings of text inputs: case, whitespace, separators, quoting (C18's respelling actions, applied blindly)"""
    try:
        text = data.decode('ascii')
    except UnicodeDecodeError:
        return []
    if not text or any(ord(c) < 9 for c in text):
        return []
    out = {text.upper(), text.lower(), text.swapcase(), text.replace(';', ' ; '), text.replace(',', ' , '), text.replace('; ', ';'),
           text.replace(', ', ','), text.replace('=', ' = '), text + ';', text + ' ', ' ' + text, text.replace(' ', '  '),
           text.replace(';', ';;'), text.replace(',', ',,'), text.replace('GMT', '+0100'), text.replace('GMT', 'UTC'),
           text.replace('"', ''), text.replace('=', '="', 1) + '"'}
    return [t.encode('ascii') for t in sorted(out) if t != text]


def run(rep):
    from ..par import pmap
    thorough = rep.tier == 'thorough'
    lib = corpus.by_class()
    per_seed = 120 if thorough else 20
    _ALLSEEDS[:] = [d for ds in lib.values() for d in ds]
    classes = [c for c in corpus.concrete_parsables() if lib.get(c)]
    args = [(c.__module__ + '.' + c.__qualname__, rep.seed, per_seed, thorough) for c in classes]
    events = []
    for evs in pmap(drive, args):
        events += evs
    for e in events:
        rep.case(digest([e['cls'], e['hex']]), nontrivial=True)
    rep.extra['accepted_inputs'] = len(events)
    rep.extra['by_origin'] = {o: sum(1 for e in events if e['origin'] == o) for o in ('corpus', 'mutant', 'respelling', 'generated')}
    rep.extra['non_canonical_accepted'] = sum(1 for e in events if e.get('hex2') and e['hex2'] != e['hex'])
    rep.rule = ('inputs: every accepted corpus input of every class, every ACCEPTED mutant of it (truncation/extension, header and '
                'length-field corruption, byte saturation, random edits, BER length forms) and blind text respellings (case, '
                'whitespace, doubled separators, quoting, other time zone names); a case is one accepted (class, bytes); the count '
                'of accepted inputs whose canonical form differs from the input is reported.')
    rep.sample({k: events[0][k] for k in ('cls', 'origin', 'hex', 'hex2', 'same12', 'stable')})
    nc = [e for e in events if e.get('hex2') and e['hex2'] != e['hex']]
    if nc:
        rep.sample({k: nc[0][k] for k in ('cls', 'origin', 'hex', 'hex2', 'same12', 'stable')})
    traces = [events[i:i + 3000] for i in range(0, len(events), 3000)]
    for tup, ti, ei, e in judge.run(rep, 'Trace_RoundTrip', list(enumerate(traces)), 'canon'):
        clause = tup[1]
        rep.violation('%s|%s|%s' % (e['cls'], clause, 'canon'), '%s: %s (input %s -> %s)' % (
            e['cls'], clause, e['hex'][:60], e.get('hex2', '-')[:60]), e)
    rep.assumptions += ['object equality is equality of projections']


def replay(rep, path):
    run(rep)
