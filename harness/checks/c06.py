"""C06 - SSL/TLS messages are laid out exactly as the RFCs specify."""
import enum
import json

from .. import corpus, judge, objects, variants, wire_tls
from ..api import call
from ..common import digest

LEVEL = 'model_checking'
_TEMPLATES = {}


def norm(a):
    """the signalling suites may be given as flags or as list members: one message, two spellings of the abstract value"""
    if 'fallback_scsv' in a:
        a = dict(a)
        a['fallback_scsv'] = a['fallback_scsv'] or 22016 in a['cipher_suites']
        a['empty_renegotiation_info_scsv'] = a['empty_renegotiation_info_scsv'] or 255 in a['cipher_suites']
        a['cipher_suites'] = [c for c in a['cipher_suites'] if c not in (255, 22016)]
    return a


def event_for(cls, obj, origin):
    try:
        ab = wire_tls.message_abs(obj)
    except Exception:  # pylint: disable=broad-except
        ab = None
    if ab is None:
        return None
    kind, a = ab
    out, wire, _ = call(lambda o: o.compose(), obj)
    if out != 'ok':
        return None            # no wire form (C01's trivial case)
    wire = bytes(wire)
    if len(wire) > (6000 if not kind.startswith(('ssl2', 'record')) else 40000):
        return None
    out2, wire2, _ = call(lambda o: o.compose(), obj)     # composing is repeatable: the second result is the same bytes
    again_same = out2 == 'ok' and bytes(wire2) == wire
    back_same = False
    o2, res, _ = call(type(obj).parse_exact_size, wire)
    if o2 == 'ok':
        try:
            b = wire_tls.message_abs(res)
            back_same = b is not None and json.dumps(norm(b[1]), sort_keys=True) == json.dumps(norm(a), sort_keys=True) and b[0] == kind
        except Exception:  # pylint: disable=broad-except
            back_same = False
    return {'ev': 'msg', 'kind': kind, 'abs': a, 'wire': list(wire), 'back_same': back_same, 'again_same': again_same, 'origin': origin,
            'cls': type(obj).__name__}


def _alt_scsv(obj, origin, ab):
    if ab is not None and ab[0] == 'client_hello' and (ab[1]['fallback_scsv'] or ab[1]['empty_renegotiation_info_scsv']) and ab[1]['cipher_suites']:
        kind, a = ab
        out, wire, _ = call(lambda o: o.compose(), obj)
        if out != 'ok':
            return []
        wire = bytes(wire)
        off = 4 + 2 + 32
        off += 1 + wire[off]
        ln = int.from_bytes(wire[off:off + 2], 'big')
        codes = wire[off + 2:off + 2 + ln]
        k = 2 * (int(bool(a['fallback_scsv'])) + int(bool(a['empty_renegotiation_info_scsv'])))
        markers = codes[len(codes) - k:]
        pairs = [markers[i:i + 2] for i in range(0, len(markers), 2)]
        alt = wire[:off + 2] + b''.join(reversed(pairs)) + codes[:len(codes) - k] + wire[off + 2 + ln:]
        o2, res, _ = call(type(obj).parse_immutable, alt)
        back_same, n = False, 0
        if o2 == 'ok':
            try:
                b = wire_tls.message_abs(res[0])
                n = res[1]
                # the parser lifts the signalling values out of the list wherever they stand: flags set, list without them
                back_same = b is not None and b[0] == kind and json.dumps(b[1], sort_keys=True) == json.dumps(norm(a), sort_keys=True)
            except Exception:  # pylint: disable=broad-except
                back_same = False
        return [{'ev': 'alt', 'form': 'scsv-first', 'kind': kind, 'abs': a, 'pad': 0, 'wire': list(alt), 'parse': o2, 'n': n,
                 'back_same': back_same, 'origin': origin + ':scsv-first', 'cls': type(obj).__name__}]
    return []


def alt_events(obj, origin):
    try:
        ab0 = wire_tls.message_abs(obj)
    except Exception:  # pylint: disable=broad-except
        ab0 = None
    return _alt_scsv(obj, origin, ab0) + _alt_other(obj, origin)


def _alt_other(obj, origin):
    """SSL 2.0 records in the three-byte-header form with padding: built here from the library's two-byte form, checked by
    TLC to be the specified encoding of the same abstract value, then given to the parser"""
    try:
        ab = wire_tls.message_abs(obj)
    except Exception:  # pylint: disable=broad-except
        return []
    if ab is not None and ab[0] in ('client_hello', 'server_hello') and not ab[1]['extensions']:
        kind, a = ab
        out, wire, _ = call(lambda o: o.compose(), obj)
        if out != 'ok':
            return []
        wire = bytes(wire)
        ln = len(wire) - 4 + 2
        alt = wire[:1] + bytes([ln >> 16, (ln >> 8) & 0xff, ln & 0xff]) + wire[4:] + b'\x00\x00'
        o2, res, _ = call(type(obj).parse_immutable, alt)
        back_same, n = False, 0
        if o2 == 'ok':
            try:
                b = wire_tls.message_abs(res[0])
                n = res[1]
                back_same = b is not None and b[0] == kind and json.dumps(norm(b[1]), sort_keys=True) == json.dumps(norm(a), sort_keys=True)
            except Exception:  # pylint: disable=broad-except
                back_same = False
        return [{'ev': 'alt', 'form': 'empty-extensions-block', 'kind': kind, 'abs': a, 'pad': 0, 'wire': list(alt), 'parse': o2, 'n': n,
                 'back_same': back_same, 'origin': origin + ':empty-extensions-block', 'cls': type(obj).__name__}]
    if ab is None or not ab[0].startswith('ssl2'):
        return []
    kind, a = ab
    out, wire, _ = call(lambda o: o.compose(), obj)
    if out != 'ok':
        return []
    body = bytes(wire)[2:]
    evs = []
    for pad in (0, 1, 7):
        ln = len(body) + pad
        if ln >= 16384:
            continue
        alt = bytes([ln >> 8, ln & 0xff, pad]) + body + bytes(pad)
        o2, res, _ = call(type(obj).parse_immutable, alt)
        back_same, n = False, 0
        if o2 == 'ok':
            try:
                b = wire_tls.message_abs(res[0])
                n = res[1]
                back_same = b is not None and b[0] == kind and json.dumps(b[1], sort_keys=True) == json.dumps(a, sort_keys=True)
            except Exception:  # pylint: disable=broad-except
                back_same = False
        evs.append({'ev': 'alt', 'form': 'ssl2-padded', 'kind': kind, 'abs': a, 'pad': pad, 'wire': list(alt), 'parse': o2, 'n': n, 'back_same': back_same,
                    'origin': origin + ':3-byte-header-pad%d' % pad, 'cls': type(obj).__name__})
    return evs


def ssl2_objects():
    """SSL 2.0 records at the sizes where the header forms matter: bodies of 16383 / 16384 / 32766 octets (the 14-bit
    limit of the padded form, the 15-bit limit of the plain form)"""
    from cryptoparser.tls.record import SslRecord
    from cryptoparser.tls.subprotocol import SslHandshakeServerHello, SslHandshakeClientHello, SslErrorMessage, SslErrorType
    from cryptoparser.tls.ciphersuite import SslCipherKind
    kinds = list(SslCipherKind)
    out = [SslRecord(message=SslErrorMessage(error_type=e)) for e in SslErrorType]
    for n in (0, 1, 255, 256, 5000, 16383 - 11, 16384 - 11, 16385 - 11, 32767 - 11 - 3):
        out.append(SslRecord(message=SslHandshakeServerHello(certificate=bytes(i * 7 & 0xff for i in range(n)), cipher_kinds=kinds[:1],
                                                             connection_id=b'', session_id_hit=bool(n & 1))))
    out.append(SslRecord(message=SslHandshakeServerHello(certificate=b'\x30\x00', cipher_kinds=kinds, connection_id=bytes(range(16)))))
    out.append(SslRecord(message=SslHandshakeClientHello(cipher_kinds=kinds[::-1], session_id=bytes(range(16)), challenge=bytes(range(32)))))
    return out


def drive(arg):
    qual, seed, thorough = arg
    import random
    cls = corpus.resolve(qual)
    rng = random.Random('%s:%s' % (seed, qual))
    pool = objects.vector_item_pool()
    events = []
    temps = _TEMPLATES.get(cls, [])
    objs = [o for o, _ in temps]
    for obj, wire in temps[:8 if thorough else 4]:
        if isinstance(obj, enum.Enum) or type(obj) is not cls:
            continue
        e = event_for(cls, obj, 'parsed')
        if e:
            events.append(e)
        events += alt_events(obj, 'parsed')
        for desc, var in variants.variants(obj, rng, pool, per_field=30 if thorough else 10, others=objs):
            e = event_for(cls, var, 'variant:' + desc)
            if e:
                events.append(e)
            if desc.startswith('extensions='):
                events += alt_events(var, 'variant:' + desc)
    return events


def big_random(rep, thorough):
    """large random messages through the real constructors"""
    from cryptoparser.tls.subprotocol import (TlsHandshakeClientHello, TlsHandshakeHelloRandom, TlsHandshakeHelloRandomBytes,
                                              TlsCompressionMethod, TlsHandshakeCertificate, TlsCertificates, TlsCertificate,
                                              TlsHandshakeServerHello)
    from cryptoparser.tls.ciphersuite import TlsCipherSuite
    from cryptoparser.tls.grease import TlsInvalidTypeTwoByte
    from cryptoparser.tls.extension import (TlsExtensionUnparsed, TlsExtensionEllipticCurves, TlsExtensionECPointFormats,
                                            TlsExtensionSignatureAlgorithms)
    from cryptodatahub.tls.algorithm import TlsNamedCurve, TlsECPointFormat, TlsSignatureAndHashAlgorithm
    from cryptoparser.tls.version import TlsProtocolVersion, TlsVersion
    from cryptoparser.tls.record import TlsRecord
    import datetime
    rng = rep.rng
    suites = list(TlsCipherSuite)
    out = []
    for i in range(60 if thorough else 16):
        n = rng.choice([0, 1, 2, 5, 40, len(suites)])
        cs = rng.sample(suites, min(n, len(suites)))
        if rng.random() < 0.5:
            cs.insert(rng.randrange(len(cs) + 1), TlsInvalidTypeTwoByte(rng.choice([0x0a0a, 0x1a1a, 0xfafa, 0x1234, 0xfffe])))
        exts = []
        if rng.random() < 0.7:
            exts.append(TlsExtensionEllipticCurves(rng.sample(list(TlsNamedCurve), rng.randint(1, 12))))
        if rng.random() < 0.6:
            exts.append(TlsExtensionECPointFormats(rng.sample(list(TlsECPointFormat), rng.randint(1, 3))))
        if rng.random() < 0.6:
            exts.append(TlsExtensionSignatureAlgorithms(rng.sample(list(TlsSignatureAndHashAlgorithm), rng.randint(1, 20))))
        if rng.random() < 0.5:
            exts.append(TlsExtensionUnparsed(TlsInvalidTypeTwoByte(rng.choice([0x2a2a, 0x7777, 0x3a3a])), bytearray(rng.randrange(256) for _ in range(rng.choice([0, 1, 9])))))
        rng.shuffle(exts)
        try:
            hello = TlsHandshakeClientHello(
                cipher_suites=cs, protocol_version=TlsProtocolVersion(rng.choice(list(TlsVersion))),
                random=TlsHandshakeHelloRandom(datetime.datetime.utcfromtimestamp(rng.randrange(2 ** 32 - 1)),
                                               TlsHandshakeHelloRandomBytes(bytearray(rng.randrange(256) for _ in range(28)))),
                session_id=[rng.randrange(256) for _ in range(rng.choice([0, 1, 16, 32]))],
                compression_methods=rng.sample(list(TlsCompressionMethod), rng.randint(1, 3)),
                extensions=exts, fallback_scsv=rng.random() < 0.5, empty_renegotiation_info_scsv=rng.random() < 0.5)
            out.append(hello)
        except Exception:  # pylint: disable=broad-except
            continue
    # every member of every code table at least once, in wire order
    from cryptoparser.tls.extension import (TlsExtensionSupportedVersionsClient, TlsExtensionPskKeyExchangeModes,
                                            TlsExtensionCompressCertificate, TlsExtensionApplicationLayerProtocolNegotiation)
    from cryptodatahub.tls.algorithm import (TlsPskKeyExchangeMode, TlsCertificateCompressionAlgorithm, TlsProtocolName)
    for build in (lambda: TlsExtensionEllipticCurves(list(TlsNamedCurve)), lambda: TlsExtensionECPointFormats(list(TlsECPointFormat)),
                  lambda: TlsExtensionSignatureAlgorithms(list(TlsSignatureAndHashAlgorithm)),
                  lambda: TlsExtensionSupportedVersionsClient([TlsProtocolVersion(v) for v in TlsVersion]),
                  lambda: TlsExtensionPskKeyExchangeModes(list(TlsPskKeyExchangeMode)),
                  lambda: TlsExtensionCompressCertificate(list(TlsCertificateCompressionAlgorithm)),
                  lambda: TlsExtensionApplicationLayerProtocolNegotiation(list(TlsProtocolName))):
        try:
            out.append(build())
        except Exception:  # pylint: disable=broad-except
            pass
    for i in range(0, len(suites), 7):
        try:
            out.append(TlsHandshakeServerHello(protocol_version=TlsProtocolVersion(list(TlsVersion)[i % len(TlsVersion)]),
                                               cipher_suite=suites[i], compression_method=TlsCompressionMethod.NULL))
        except Exception:  # pylint: disable=broad-except
            pass
    # records of every length the record layer has to carry: a protected record (RFC 5246 6.2.3: TLSCiphertext, RFC 8446 5.2) is
    # up to 2^14 + 2048 bytes long, more than the 2^14 of a plaintext fragment
    from cryptoparser.tls.subprotocol import TlsContentType
    for n, ct in ((0, TlsContentType.APPLICATION_DATA), (1, TlsContentType.HANDSHAKE), (16383, TlsContentType.APPLICATION_DATA),
                  (16384, TlsContentType.HANDSHAKE), (16385, TlsContentType.APPLICATION_DATA), (16384 + 256, TlsContentType.APPLICATION_DATA),
                  (16384 + 2048, TlsContentType.APPLICATION_DATA), (16384 + 2048, TlsContentType.HANDSHAKE)):
        try:
            out.append(TlsRecord(fragment=bytes((7 * i + n) % 256 for i in range(n)), content_type=ct))
        except Exception:  # pylint: disable=broad-except
            pass
    for i in range(10 if thorough else 4):
        chain = [TlsCertificate(bytes(rng.randrange(256) for _ in range(rng.choice([1, 2, 300, 1200])))) for _ in range(rng.randint(1, 6))]
        try:
            out.append(TlsHandshakeCertificate(TlsCertificates(chain)))
        except Exception:  # pylint: disable=broad-except
            pass
    return out


def build_hello(a):
    """the real client hello for an abstract value (constructor arguments only, no layout)"""
    import datetime
    from cryptoparser.tls.subprotocol import (TlsHandshakeClientHello, TlsHandshakeHelloRandom, TlsHandshakeHelloRandomBytes,
                                              TlsCompressionMethod)
    from cryptoparser.tls.ciphersuite import TlsCipherSuite
    from cryptoparser.tls.grease import TlsInvalidTypeTwoByte
    from cryptoparser.tls.extension import TlsExtensionUnparsed
    from cryptodatahub.tls.algorithm import TlsExtensionType
    from cryptoparser.tls.version import TlsProtocolVersion, TlsVersion
    by_code = {c.value.code: c for c in TlsCipherSuite}
    ext_by_code = {c.value.code: c for c in TlsExtensionType}
    ver_by_code = {c.value.code: c for c in TlsVersion}
    comp_by_code = {c.value.code: c for c in TlsCompressionMethod}
    t = int.from_bytes(bytes(a['time']), 'big')
    return TlsHandshakeClientHello(
        cipher_suites=[by_code.get(c) or TlsInvalidTypeTwoByte(c) for c in a['cipher_suites']],
        protocol_version=TlsProtocolVersion(ver_by_code[a['version']]),
        random=TlsHandshakeHelloRandom(datetime.datetime.utcfromtimestamp(t), TlsHandshakeHelloRandomBytes(bytearray(a['random']))),
        session_id=list(a['session_id']),
        compression_methods=[comp_by_code[c] for c in a['compression_methods']],
        extensions=[TlsExtensionUnparsed(TlsInvalidTypeTwoByte(e['type']), bytearray(e['body']))
                    for e in a['extensions']],
        fallback_scsv=a['fallback_scsv'], empty_renegotiation_info_scsv=a['empty_renegotiation_info_scsv'])


def gen_cases(rep):
    import os
    from .. import tlc
    out = os.path.join(rep.build, 'gen_tls.ndjson')
    res = tlc.require_ok(tlc.run('Gen_TlsWire', workers=1, env={'OUT_FILE': out}, timeout=900), 'Gen_TlsWire')
    rep.add_tlc(res, 'Gen_TlsWire (client hello domain: bytes and JA3 computed by TLC)')
    return [json.loads(l) for l in open(out)]


def replay_gen(rep):
    """specification -> code: compose(build(abs)) = Enc(abs) and abs(parse(Enc(abs))) = abs, by plain equality"""
    from cryptoparser.tls.subprotocol import TlsHandshakeClientHello
    import os
    import time
    allcases = gen_cases(rep)
    cases = [c for c in allcases if not c.get('sweep')]
    skipped = 0
    # extension types the library knows by number but has no class for (heartbeat, max_fragment_length, pre_shared_key, ...)
    from cryptodatahub.tls.algorithm import TlsExtensionType
    from cryptoparser.tls.extension import TlsExtensionVariantClient
    table = TlsExtensionVariantClient._get_variants()                                                   # pylint: disable=protected-access
    classless = {t.value.code for t, alternatives in table.items() if all('Unparsed' in c.__name__ for c in alternatives)}
    classless |= {t.value.code for t in TlsExtensionType} - {t.value.code for t in table}
    sweep = [c for c in allcases if c.get('sweep') and c['abs']['extensions'][0]['type'] in classless]
    rep.extra['classless_extension_types_replayed'] = sorted(c['abs']['extensions'][0]['type'] for c in sweep)
    cases = cases + sweep
    # the layout must not depend on the configuration of the machine: a sample of the domain is replayed under other TZ settings
    saved = os.environ.get('TZ')
    plan = [('UTC', cases)] + [(tz, rep.rng.sample(cases, 300)) for tz in ('JST-9', 'America/New_York', 'Australia/Lord_Howe')]
    try:
        for tz, part in plan:
            os.environ['TZ'] = tz
            time.tzset()
            skipped += replay_cases(rep, part, tz)
    finally:
        if saved is None:
            os.environ.pop('TZ', None)
        else:
            os.environ['TZ'] = saved
        time.tzset()
    rep.extra['generated_cases'] = len(cases)
    rep.extra['generated_not_constructible'] = skipped
    rep.traces += len(cases) - skipped


def replay_cases(rep, cases, tz):
    from cryptoparser.tls.subprotocol import TlsHandshakeClientHello
    skipped = 0
    for c in cases:
        a = c['abs']
        try:
            hello = build_hello(a)
        except Exception:  # pylint: disable=broad-except
            skipped += 1        # not constructible (an empty suite list without a signalling suite is below the minimum)
            continue
        rep.case('gen|%s|%s' % (tz, digest(a)))
        wire = bytes(c['wire'])
        out, got, _ = call(lambda o: o.compose(), hello)
        if out != 'ok' or bytes(got) != wire:
            rep.violation('TlsHandshakeClientHello|layout-differs-from-specification|generated' + ('' if tz == 'UTC' else '@TZ'),
                          'compose() of a generated client hello differs from the bytes TlsWire prescribes (TZ=%s)' % tz,
                          {'abs': a, 'tz': tz, 'expected_hex': wire.hex(), 'got': bytes(got).hex() if out == 'ok' else out})
        out, got2, _ = call(lambda o: o.compose(), hello)
        if out != 'ok' or bytes(got2) != wire:
            rep.violation('TlsHandshakeClientHello|second-compose-differs|generated',
                          'composing the same client hello a second time gives other bytes',
                          {'abs': a, 'expected_hex': wire.hex(), 'got': bytes(got2).hex() if out == 'ok' else out})
        o2, parsed, _ = call(TlsHandshakeClientHello.parse_exact_size, wire)
        back = None
        if o2 == 'ok':
            back = wire_tls.message_abs(parsed)
        if back is None or json.dumps(norm(back[1]), sort_keys=True) != json.dumps(norm(a), sort_keys=True):
            rep.violation('TlsHandshakeClientHello|conformant-encoding-not-recovered|generated',
                          'parsing the bytes TlsWire prescribes does not give back the encoded field values',
                          {'abs': a, 'wire_hex': wire.hex(), 'parse': o2, 'back': back[1] if back else None})
    return skipped


def collect(rep, thorough):
    from ..par import pmap
    _TEMPLATES.clear()
    for cls, obj, wire in objects.templates():
        if cls.__module__.startswith('cryptoparser.tls.') and cls.__module__.split('.')[-1] in ('record', 'subprotocol', 'extension'):
            _TEMPLATES.setdefault(cls, []).append((obj, wire))
    objects.vector_item_pool()
    args = [(c.__module__ + '.' + c.__qualname__, rep.seed, thorough) for c in sorted(_TEMPLATES, key=lambda c: c.__qualname__)]
    events = []
    for evs in pmap(drive, args):
        events += evs
    for o in ssl2_objects():
        e = event_for(type(o), o, 'ssl2-sizes')
        if e:
            events.append(e)
        events += alt_events(o, 'ssl2-sizes')
    for o in big_random(rep, thorough):
        e = event_for(type(o), o, 'random')
        if e:
            events.append(e)
        events += alt_events(o, 'random')
    return events


def run(rep):
    thorough = rep.tier == 'thorough'
    replay_gen(rep)
    events = collect(rep, thorough)
    for e in events:
        rep.case(digest([e['kind'], e['wire']]))
    kinds = {}
    for e in events:
        k = e['kind'] + (':' + e['abs']['k'] if e['kind'] == 'extension' else '')
        kinds[k] = kinds.get(k, 0) + 1
    rep.extra['messages_by_kind'] = kinds
    rep.rule = ('messages: every TLS record / alert / CCS / hello / certificate / extension / SSL 2.0 object parsed from the corpus, '
                'field-by-field variations through the constructors (every enum member, boundary values, empty and longer '
                'vectors), and large random hellos and chains; each is composed by the library and TLC compares the bytes with '
                'TlsWire.Enc of the abstract field values; parse(wire) must give back the same abstract value. Distinct by bytes.')
    rep.sample({k: (v if k != 'wire' else v[:40]) for k, v in events[0].items()})
    ch = [e for e in events if e['kind'] == 'client_hello']
    if ch:
        rep.sample({'kind': 'client_hello', 'abs': {k: (v if not isinstance(v, list) else v[:6]) for k, v in ch[0]['abs'].items()}})
    traces = [events[i:i + 400] for i in range(0, len(events), 400)]
    for tup, ti, ei, e in judge.run(rep, 'Trace_TlsWire', list(enumerate(traces)), 'tlswire', max_lines=2500):
        clause = tup[1]
        sub = e['kind'] + (':' + e['abs'].get('k', '') if e['kind'] == 'extension' else '')
        field = e['origin'].replace('variant:', '') if e['origin'].startswith('variant:') else e['origin']
        if clause == 'hello-retry-request-handshake-type-is-not-server-hello':
            field = 'type-octet'          # one cause, whatever the other field values are
        rep.violation('%s|%s|%s' % (e['cls'], clause, field), '%s (%s): %s [%s]' % (e['cls'], sub, clause, e['origin']),
                      {'kind': e['kind'], 'abs': e['abs'], 'wire_hex': bytes(e['wire']).hex()[:600], 'origin': e['origin']})
    rep.assumptions += ['TlsWire.tla is my transcription of the RFC layouts; the abstract value of an extension inside a hello is '
                        '(type, body bytes) - extension bodies are checked as messages of their own']


def replay(rep, path):
    run(rep)
