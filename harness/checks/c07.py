"""C07 - SSH banner, packets, key exchange messages and host keys follow the RFCs."""
import enum
import json

from .. import tlc, corpus, judge, objects, variants, wire_ssh
from ..api import call
from ..common import digest

LEVEL = 'model_checking'
_TEMPLATES = {}


def event_for(obj, origin):
    try:
        ab = wire_ssh.message_abs(obj)
    except Exception:  # pylint: disable=broad-except
        ab = None
    if ab is None:
        return None
    kind, a = ab
    out, wire, _ = call(lambda o: o.compose(), obj)
    if out != 'ok':
        return None
    wire = bytes(wire)
    if len(wire) > 5000:
        return None
    back_same = False
    o2, res, _ = call(type(obj).parse_exact_size, wire)
    if o2 == 'ok':
        try:
            b = wire_ssh.message_abs(res)
            back_same = b is not None and b[0] == kind and json.dumps(b[1], sort_keys=True) == json.dumps(a, sort_keys=True)
        except Exception:  # pylint: disable=broad-except
            back_same = False
    return {'ev': 'msg', 'kind': kind, 'abs': a, 'wire': list(wire), 'back_same': back_same, 'origin': origin,
            'cls': type(obj).__name__}


def make_keys(rng, thorough):
    """host keys over boundary bit lengths, built through the library's own constructors"""
    from cryptoparser.ssh.key import SshHostKeyRSA, SshHostKeyDSS, SshHostKeyEDDSA, SshHostKeyAlgorithm
    from cryptodatahub.common.key import PublicKey, PublicKeyParamsRsa, PublicKeyParamsDsa, PublicKeyParamsEddsa
    from cryptodatahub.common.algorithm import NamedGroup
    keys = []
    es = [3, 17, 65537, 2 ** 32 + 1, 2 ** 31 - 1, 2 ** 32 - 1, 2 ** 64 + 13]
    for k in list(range(1, 9)) + [16, 32, 64, 128, 256] + ([384, 512] if thorough else []):
        for bits in (8 * k - 1, 8 * k, 8 * k + 1, 32 * k + 1):
            n = (1 << (bits - 1)) | rng.getrandbits(bits - 1) | 1 if bits > 1 else 1
            e = rng.choice(es)
            try:
                keys.append(SshHostKeyRSA(SshHostKeyAlgorithm.SSH_RSA, PublicKey.from_params(PublicKeyParamsRsa(modulus=n, public_exponent=e))))
            except Exception:  # pylint: disable=broad-except
                pass
    for bits in (7, 8, 9, 159, 160, 161, 1023, 1024, 1025, 997):
        vals = [(1 << (bits - 1)) | rng.getrandbits(bits - 1) if bits > 1 else 1 for _ in range(4)]
        try:
            keys.append(SshHostKeyDSS(SshHostKeyAlgorithm.SSH_DSS, PublicKey.from_params(PublicKeyParamsDsa(
                prime=vals[0], order=vals[1], generator=vals[2], public_key_value=vals[3]))))
        except Exception:  # pylint: disable=broad-except
            pass
    for _ in range(4):
        try:
            keys.append(SshHostKeyEDDSA(SshHostKeyAlgorithm.SSH_ED25519, PublicKey.from_params(PublicKeyParamsEddsa(
                curve_type=NamedGroup.CURVE25519, key_data=bytes(rng.randrange(256) for _ in range(32))))))
        except Exception:  # pylint: disable=broad-except
            pass
    return keys


def make_kexinits(rng, thorough):
    from cryptoparser.ssh.subprotocol import SshKeyExchangeInit
    from cryptodatahub.ssh.algorithm import (SshKexAlgorithm, SshHostKeyAlgorithm, SshEncryptionAlgorithm, SshMacAlgorithm,
                                             SshCompressionAlgorithm)
    out = []

    def pick(en, unknowns):
        k = rng.choice([0, 0, 1, 2, 5, 12])
        lst = rng.sample(list(en), min(k, len(list(en))))
        for u in unknowns:
            if rng.random() < 0.4:
                lst.insert(rng.randrange(len(lst) + 1), u)
        return lst
    for i in range(80 if thorough else 25):
        try:
            out.append(SshKeyExchangeInit(
                kex_algorithms=pick(SshKexAlgorithm, ['kex-unknown@example.com', 'x', 'Curve25519-SHA256', 'DIFFIE-HELLMAN-GROUP14-SHA1']),
                host_key_algorithms=pick(SshHostKeyAlgorithm, ['hostkey-unknown', 'SSH-RSA', 'Ssh-Ed25519']),
                encryption_algorithms_client_to_server=pick(SshEncryptionAlgorithm, ['enc@unknown', 'aes999-ctr', 'AES128-CTR', 'Aes256-Gcm@openssh.com']),
                encryption_algorithms_server_to_client=pick(SshEncryptionAlgorithm, ['enc2@unknown']),
                mac_algorithms_client_to_server=pick(SshMacAlgorithm, ['mac-x', 'HMAC-SHA2-256', 'Hmac-Sha1']),
                mac_algorithms_server_to_client=pick(SshMacAlgorithm, ['mac-y@z']),
                compression_algorithms_client_to_server=pick(SshCompressionAlgorithm, ['zlib9', 'ZLIB', 'None']),
                compression_algorithms_server_to_client=pick(SshCompressionAlgorithm, []),
                languages_client_to_server=rng.choice([[], ['en-US'], ['es-419', 'de-CH-1996', 'en'], ['zh-Hant-TW', 'sl-rozaj-1994']]),
                languages_server_to_client=rng.choice([[], ['es-419'], ['i-klingon', 'en-GB']]),
                cookie=bytearray(rng.randrange(256) for _ in range(16)),
                first_kex_packet_follows=rng.choice([0, 1]), reserved=rng.choice([0, 1, 2 ** 32 - 1])))
        except Exception:  # pylint: disable=broad-except
            continue
    # name-lists far longer than any implementation sends: 256, 300 and 1000 names (a name-list is bounded by its 32-bit length)
    for count in (256, 300, 1000):
        names = ['alg%d@example.com' % i for i in range(count)]
        for field in ('kex_algorithms', 'encryption_algorithms_client_to_server', 'mac_algorithms_server_to_client',
                      'compression_algorithms_client_to_server'):
            kw = dict(kex_algorithms=[list(SshKexAlgorithm)[0]], host_key_algorithms=[list(SshHostKeyAlgorithm)[0]],
                      encryption_algorithms_client_to_server=[list(SshEncryptionAlgorithm)[0]],
                      encryption_algorithms_server_to_client=[list(SshEncryptionAlgorithm)[0]],
                      mac_algorithms_client_to_server=[list(SshMacAlgorithm)[0]], mac_algorithms_server_to_client=[list(SshMacAlgorithm)[0]],
                      compression_algorithms_client_to_server=[list(SshCompressionAlgorithm)[0]],
                      compression_algorithms_server_to_client=[list(SshCompressionAlgorithm)[0]],
                      languages_client_to_server=[], languages_server_to_client=[], cookie=bytearray(range(16)),
                      first_kex_packet_follows=0, reserved=0)
            kw[field] = names
            try:
                out.append(SshKeyExchangeInit(**kw))
            except Exception:  # pylint: disable=broad-except
                continue
            if count > 256:
                break
    return out


def packet_events(rep, thorough):
    """padding rule for every payload length: records around DH init messages of chosen key length"""
    from cryptoparser.ssh.record import SshRecordKexDH, SshRecordInit
    from cryptoparser.ssh.subprotocol import SshDHKeyExchangeInit, SshNewKeys
    ev = []
    lengths = list(range(5, 35001)) if thorough else sorted(set(list(range(5, 600)) + list(range(5, 35001, 37)) + [34999, 35000, 32767, 32768, 65535 - 9]))
    for n in lengths:
        msg = SshDHKeyExchangeInit(bytearray(n - 5))
        rec = bytes(SshRecordKexDH(msg).compose())
        payload = bytes(msg.compose())
        # ... and read back: RFC 4253 6.1 obliges an implementation to process packets of up to 35000 bytes
        o2, back, _ = call(SshRecordKexDH.parse_exact_size, rec)
        back_ok = o2 == 'ok' and bytes(back.compose()) == rec
        ev.append({'ev': 'packet', 'n': len(payload), 'packet_length': int.from_bytes(rec[:4], 'big'), 'padding_length': rec[4],
                   'total': len(rec), 'head_ok': rec[5:5 + len(payload)] == payload and (back_ok or len(rec) > 35000)})
        rep.case('packet|%d' % n)
    for msg in (SshNewKeys(),):
        rec = bytes(SshRecordInit(msg).compose())
        payload = bytes(msg.compose())
        ev.append({'ev': 'packet', 'n': len(payload), 'packet_length': int.from_bytes(rec[:4], 'big'), 'padding_length': rec[4],
                   'total': len(rec), 'head_ok': rec[5:5 + len(payload)] == payload})
        rep.case('packet|%d' % len(payload))
    return ev


def replay_banners(rep):
    """specification -> code: TLC-generated identification strings through the real parser and composer"""
    import os
    from cryptoparser.ssh.subprotocol import SshProtocolMessage
    out = os.path.join(rep.build, 'gen_ssh.ndjson')
    res = tlc.require_ok(tlc.run('Gen_SshWire', workers=1, env={'OUT_FILE': out}, timeout=300), 'Gen_SshWire')
    rep.add_tlc(res, 'Gen_SshWire (identification strings)')
    cases = [json.loads(l) for l in open(out)]
    from cryptoparser.ssh.subprotocol import SshKeyExchangeInit
    for c in [c for c in cases if c.get('kind') == 'kexinit']:
        wire = bytes(c['wire'])
        rep.case('kexinit|' + wire.hex())
        o, parsed, _ = call(SshKeyExchangeInit.parse_exact_size, wire)
        back = wire_ssh.message_abs(parsed) if o == 'ok' else None
        langs = '%s/%s' % (b','.join(bytes(x) for x in c['abs']['lang_c2s']).decode(), b','.join(bytes(x) for x in c['abs']['lang_s2c']).decode())
        if back is None or json.dumps(back[1], sort_keys=True) != json.dumps(c['abs'], sort_keys=True):
            rep.violation('SshKeyExchangeInit|conformant-encoding-not-recovered|generated-languages:' + langs,
                          'a conformant KEXINIT (language tags %s) is not parsed to its field values' % langs,
                          {'wire_hex': wire.hex(), 'parse': o, 'expected': c['abs'], 'got': back[1] if back else None})
        elif bytes(parsed.compose()) != wire:
            rep.violation('SshKeyExchangeInit|layout-differs-from-specification|generated-languages:' + langs,
                          'the parsed KEXINIT composes to other bytes', {'wire_hex': wire.hex(), 'composed': bytes(parsed.compose()).hex()})
    cases = [c for c in cases if c.get('kind') != 'kexinit']
    for c in cases:
        wire = bytes(c['wire'])
        rep.case('banner|' + wire.hex())
        o, parsed, _ = call(SshProtocolMessage.parse_exact_size, wire)
        back = wire_ssh.message_abs(parsed) if o == 'ok' else None
        if back is None or json.dumps(back[1], sort_keys=True) != json.dumps(c['abs'], sort_keys=True):
            rep.violation('SshProtocolMessage|conformant-encoding-not-recovered|generated:%s%s' % (
                              bytes(c['abs']['software']).decode('latin-1'), ' +comment' if c['abs']['has_comment'] else ''),
                          'a conformant identification string is not parsed to its field values',
                          {'wire': wire.decode('latin-1'), 'parse': o, 'expected': c['abs'], 'got': back[1] if back else None})
        elif bytes(parsed.compose()) != wire:
            rep.violation('SshProtocolMessage|layout-differs-from-specification|generated:%s%s' % (
                              bytes(c['abs']['software']).decode('latin-1'), ' +comment' if c['abs']['has_comment'] else ''),
                          'the parsed identification string composes to other bytes',
                          {'wire': wire.decode('latin-1'), 'composed': bytes(parsed.compose()).decode('latin-1')})
    rep.traces += len(cases)
    rep.extra['generated_banners'] = len(cases)


def curve_family_events(rep):
    """RFC 5656 10.1 / PROTOCOL.certkeys: the three REQUIRED curves share one blob layout - string name, [string nonce,] string
    curve identifier, string point - so a conformant blob for nistp256 becomes a conformant blob for nistp384 / nistp521 by
    exchanging the curve name in both strings and the point (its length is fixed by the curve).  Every such blob has to be
    accepted by the class and by the host key dispatcher and composed back to the same bytes."""
    import struct
    from cryptoparser.ssh.key import SshHostPublicKeyVariant
    points = {'nistp256': 65, 'nistp384': 97, 'nistp521': 133}
    events = []

    def strings(blob, count):
        out, pos = [], 0
        for _ in range(count):
            n = struct.unpack('>I', blob[pos:pos + 4])[0]
            out.append(blob[pos + 4:pos + 4 + n])
            pos += 4 + n
        return out, blob[pos:]

    def pack(parts):
        return b''.join(struct.pack('>I', len(x)) + x for x in parts)
    seen = set()
    for cls, obj, _ in objects.templates():
        if 'ECDSA' not in cls.__name__ or type(obj) is not cls or not hasattr(obj, 'key_bytes'):
            continue
        out, blob, _ = call(lambda o: bytes(o.key_bytes), obj)
        if out != 'ok':
            continue
        is_cert = b'-cert-v01@openssh.com' in blob[:80]
        parts, rest = strings(blob, 4 if is_cert else 3)
        name = parts[0].decode('ascii')
        curve = parts[2 if is_cert else 1].decode('ascii')
        if curve not in points or curve not in name or (cls.__name__, curve) in seen:
            continue
        seen.add((cls.__name__, curve))
        for target, plen in sorted(points.items()):
            point = b'\x04' + bytes((7 * i + len(target)) % 256 for i in range(plen - 1))
            new_parts = [name.replace(curve, target).encode('ascii')] + ([parts[1]] if is_cert else []) + [target.encode('ascii'), point]
            wire = pack(new_parts) + rest
            for entry, parser in (('class', cls), ('dispatcher', SshHostPublicKeyVariant)):
                o2, res, _ = call(parser.parse_exact_size, wire)
                same = False
                if o2 == 'ok':
                    o3, back, _ = call(lambda k: bytes(k.key_bytes), res)
                    same = o3 == 'ok' and back == wire
                events.append({'ev': 'conformant_blob', 'cls': cls.__name__, 'entry': entry, 'alg': new_parts[0].decode('ascii'),
                               'out': o2, 'same': bool(same), 'wire': list(wire[:120])})
    return events


def collect(rep, thorough):
    rng = rep.rng
    pool = objects.vector_item_pool()
    events = []
    for cls, obj, wire in objects.templates():
        if not cls.__module__.startswith('cryptoparser.ssh.') or isinstance(obj, enum.Enum) or type(obj) is not cls:
            continue
        e = event_for(obj, 'parsed')
        if e:
            events.append(e)
        for desc, var in variants.variants(obj, rng, pool, per_field=20 if thorough else 8):
            e = event_for(var, 'variant:' + desc)
            if e:
                events.append(e)
    for o in make_keys(rng, thorough) + make_kexinits(rng, thorough):
        e = event_for(o, 'generated')
        if e:
            events.append(e)
    return events


def run(rep):
    thorough = rep.tier == 'thorough'
    res = tlc.require_ok(tlc.run('MC_SshWire', workers=1, timeout=600), 'MC_SshWire')
    rep.add_tlc(res, 'MC_SshWire (padding rule for payload lengths 0..35000)')
    replay_banners(rep)
    events = collect(rep, thorough)
    for e in events:
        rep.case(digest([e['kind'], e['wire']]))
    pk = packet_events(rep, thorough)
    cb = curve_family_events(rep)
    rep.extra['conformant_ecdsa_blobs'] = len(cb)
    rep.evaluations += len(cb)
    kinds = {}
    for e in events:
        kinds[e['kind']] = kinds.get(e['kind'], 0) + 1
    rep.extra['messages_by_kind'] = kinds
    rep.extra['packet_lengths_checked'] = len(pk)
    rep.rule = ('messages: SSH objects parsed from the corpus (banner, KEXINIT, DH / GEX messages, disconnect, host keys) with field '
                'variations, RSA/DSS/Ed25519 keys generated at bit lengths 8k-1, 8k, 8k+1, 32k+1, KEXINITs over random ordered lists of '
                'known and unknown names incl. empty lists; binary packets for payload lengths 5..35000 (%s). TLC compares compose() '
                'with SshWire.Enc and the padding rule. Distinct by bytes / length.' % ('all' if thorough else 'all up to 600, then every 37th'))
    rep.sample({k: (v if k != 'wire' else v[:40]) for k, v in events[0].items()})
    rep.sample(pk[3])
    traces = [events[i:i + 300] for i in range(0, len(events), 300)] + [pk[i:i + 4000] for i in range(0, len(pk), 4000)] + ([cb] if cb else [])
    for tup, ti, ei, e in judge.run(rep, 'Trace_SshWire', list(enumerate(traces)), 'sshwire', max_lines=3000):
        clause = tup[1]
        if e['ev'] == 'conformant_blob':
            rep.violation('%s|%s|%s:%s' % (e['cls'], clause, e['entry'], e['alg']), '%s blob for %s given to the %s: %s (parse %s)' % (
                e['cls'], e['alg'], e['entry'], clause, e['out']), e)
        elif e['ev'] == 'packet':
            rep.violation('SshRecord|%s|payload-length' % clause, 'binary packet for payload length %d: %s' % (e['n'], clause), e)
        else:
            field = e['origin'].replace('variant:', '') if e['origin'].startswith('variant:') else e['origin']
            if e['kind'].startswith('cert_') and clause == 'layout-differs-from-specification' and \
                    any(o['k'] == 'string' for o in e['abs']['options'] + e['abs']['extensions']):
                field = 'string-valued-option'        # one cause: the data of force-command / source-address
            rep.violation('%s|%s|%s' % (e['cls'], clause, field), '%s (%s): %s [%s]' % (e['cls'], e['kind'], clause, e['origin']),
                          {'kind': e['kind'], 'abs': e['abs'], 'wire_hex': bytes(e['wire']).hex()[:600], 'origin': e['origin']})
    rep.assumptions += ['SshWire.tla is my transcription of RFC 4251/4253/4419/5656/8709; OpenSSH certificate layouts are not transcribed '
                        '(certificates are covered by the round-trip checks C01/C05 only)', 'padding content is arbitrary per RFC 4253']


def replay(rep, path):
    run(rep)
