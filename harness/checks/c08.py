"""C08 - DNSSEC and mail-related DNS record data follow the RFCs, key tag included."""
import enum
import json

from .. import tlc, judge, objects, variants, wire_dns
from ..api import call
from ..common import digest

LEVEL = 'model_checking'


def event_for(obj, origin):
    try:
        ab = wire_dns.message_abs(obj)
    except Exception:  # pylint: disable=broad-except
        ab = None
    if ab is None:
        return []
    kind, a = ab
    out, wire, _ = call(lambda o: o.compose(), obj)
    if out != 'ok':
        return []
    wire = bytes(wire)
    if len(wire) > 4000:
        return []
    back_same = False
    o2, res, _ = call(type(obj).parse_exact_size, wire)
    if o2 == 'ok':
        try:
            b = wire_dns.message_abs(res)
            back_same = b is not None and b[0] == kind and json.dumps(b[1], sort_keys=True) == json.dumps(a, sort_keys=True)
        except Exception:  # pylint: disable=broad-except
            back_same = False
    evs = [{'ev': 'msg', 'kind': kind, 'abs': a, 'wire': list(wire), 'back_same': back_same, 'origin': origin, 'cls': type(obj).__name__}]
    if kind == 'dnskey':
        kt = call(lambda o: o.key_tag, obj)
        evs.append({'ev': 'keytag', 'rdata': list(wire), 'algorithm': a['algorithm'], 'key_tag': kt[1] if kt[0] == 'ok' else -1,
                    'origin': origin, 'cls': 'DnsRecordDnskey'})
    return evs


def generated(rep, thorough):
    """keys of every supported kind with chosen sizes, built through the library's constructors"""
    from cryptoparser.dnsrec.record import DnsRecordDnskey, DnsSecFlag, DnsSecProtocol, DnsRecordTxt, DnsRecordMx, DnsNameUncompressed
    from cryptodatahub.dnsrec.algorithm import DnsSecAlgorithm
    from cryptodatahub.common.key import PublicKey, PublicKeyParamsRsa, PublicKeyParamsDsa, PublicKeyParamsEcdsa, PublicKeyParamsEddsa
    from cryptodatahub.common.algorithm import NamedGroup
    rng = rep.rng
    out = []
    flagsets = [[], [DnsSecFlag.DNS_ZONE_KEY], [DnsSecFlag.DNS_ZONE_KEY, DnsSecFlag.SECURE_ENTRY_POINT], list(DnsSecFlag)]

    def add(alg, params):
        for fl in flagsets if thorough else flagsets[1:3]:
            try:
                out.append(DnsRecordDnskey(fl, alg, PublicKey.from_params(params), DnsSecProtocol.V3))
            except Exception:  # pylint: disable=broad-except
                pass
    for alg in (DnsSecAlgorithm.RSASHA256, DnsSecAlgorithm.RSASHA1, DnsSecAlgorithm.RSAMD5):
        for ebytes in (1, 3, 4, 255, 256, 300):
            for nbits in (512, 516, 1024, 1028, 2048, 2052, 1021):
                if ebytes > 4 and nbits != 1024:
                    continue
                e = (1 << (8 * ebytes - 1)) | rng.getrandbits(8 * ebytes - 1) | 1
                n = (1 << (nbits - 1)) | rng.getrandbits(nbits - 1) | 1
                add(alg, PublicKeyParamsRsa(modulus=n, public_exponent=e))
    for t in (0, 1, 8):
        size = 64 + 8 * t
        add(DnsSecAlgorithm.DSA, PublicKeyParamsDsa(prime=(1 << (8 * size - 1)) | rng.getrandbits(8 * size - 2), order=rng.getrandbits(159) | (1 << 159),
                                                  generator=rng.getrandbits(8 * size - 9), public_key_value=rng.getrandbits(8 * size - 3)))
    for alg, grp in ((DnsSecAlgorithm.ECDSAP256SHA256, NamedGroup.SECP256K1), (DnsSecAlgorithm.ECDSAP384SHA384, NamedGroup.SECP384R1),
                     (DnsSecAlgorithm.ECCGOST, NamedGroup.GC256B)):
        bits = grp.value.size
        for _ in range(3):
            add(alg, PublicKeyParamsEcdsa(point_x=rng.getrandbits(bits - rng.choice([0, 9])), point_y=rng.getrandbits(bits - rng.choice([0, 17])), named_group=grp))
        # coordinates with leading zero octets (one real key in 65536 has both): fixed-width all the same
        add(alg, PublicKeyParamsEcdsa(point_x=rng.getrandbits(bits - 9), point_y=rng.getrandbits(bits - 17), named_group=grp))
        add(alg, PublicKeyParamsEcdsa(point_x=1, point_y=2, named_group=grp))
    for _ in range(3):
        add(DnsSecAlgorithm.ED25519, PublicKeyParamsEddsa(curve_type=NamedGroup.CURVE25519, key_data=bytes(rng.randrange(256) for _ in range(32))))
    # boundary of the key tag fold: RDATA whose 16-bit word sum T has (T mod 2^16) + (T div 2^16) >= 2^16, and its neighbours
    for target in (0x1ffff, 0x1fffe, 0x2fffe, 0x2ffff, 0x2fffd, 0x3fffd, 0x4fffc, 0x5fffb, 0xffff, 0x10000, 0x10001):
        for _ in range(3):
            words = [0x0101, 0x030f] + [rng.randrange(65536) for _ in range(15)]
            last = target - sum(words)
            tries = 0
            while not 0 <= last <= 0xffff and tries < 200:
                i = rng.randrange(2, len(words))
                words[i] = 0xffff if last > 0xffff else 0
                last = target - sum(words)
                tries += 1
            if 0 <= last <= 0xffff:
                key = b''.join(w.to_bytes(2, 'big') for w in words[2:] + [last])
                try:
                    out.append(DnsRecordDnskey([DnsSecFlag.DNS_ZONE_KEY, DnsSecFlag.SECURE_ENTRY_POINT], DnsSecAlgorithm.ED25519,
                                               PublicKey.from_params(PublicKeyParamsEddsa(curve_type=NamedGroup.CURVE25519, key_data=key)),
                                               DnsSecProtocol.V3))
                except Exception:  # pylint: disable=broad-except
                    pass
    for total in (0, 1, 254, 255, 256, 257, 510, 511, 600):
        try:
            out.append(DnsRecordTxt(''.join(chr(0x61 + i % 26) for i in range(total))))
        except Exception:  # pylint: disable=broad-except
            pass
    for name in ('', 'example.com', 'a.b.c.d.e', 'x' * 63 + '.example', 'mail.example.org'):
        try:
            out.append(DnsRecordMx(rng.randrange(65536), name))
            out.append(DnsNameUncompressed.convert(name))
        except Exception:  # pylint: disable=broad-except
            pass
    return out


def conformant_rdata(rep):
    """specification-conformant DNSKEY RDATA assembled from raw key material of the sizes the RFCs prescribe
    (RFC 8080: Ed25519 32 octets, Ed448 57 octets; RFC 6605: P-256 64 octets, P-384 96 octets)"""
    from cryptoparser.dnsrec.record import DnsRecordDnskey
    rng = rep.rng
    ev = []
    for kind, alg, size in (('ed25519', 15, 32), ('ed448', 16, 57), ('p256', 13, 64), ('p384', 14, 96)):
        for _ in range(3):
            key = bytes(rng.randrange(256) for _ in range(size))
            rdata = bytes([1, 1, 3, alg]) + key
            o, res, _ = call(DnsRecordDnskey.parse_exact_size, rdata)
            kept = False
            if o == 'ok':
                try:
                    kept = bytes(res.compose()) == rdata
                except Exception:  # pylint: disable=broad-except
                    kept = False
            ev.append({'ev': 'parse', 'kind': kind, 'rdata': list(rdata), 'out': o, 'key_bytes_kept': kept, 'cls': 'DnsRecordDnskey',
                       'origin': 'conformant'})
            rep.case('rdata|' + rdata.hex())
    # internationalised names (RFC 5890 A-labels on the wire): parse, then compose must give the same octets back
    from cryptoparser.dnsrec.record import DnsNameUncompressed, DnsRecordMx
    for cls, rdata in ((DnsNameUncompressed, b'\x0dxn--bcher-kva\x07example\x00'), (DnsNameUncompressed, b'\x08xn--p1ai\x00'),
                       (DnsRecordMx, b'\x00\x0a\x04mail\x0dxn--bcher-kva\x02de\x00')):
        o, res, _ = call(cls.parse_exact_size, rdata)
        kept = False
        if o == 'ok':
            try:
                kept = bytes(res.compose()) == rdata
            except Exception:  # pylint: disable=broad-except
                kept = False
        ev.append({'ev': 'parse', 'kind': 'idn-name', 'rdata': list(rdata), 'out': o, 'key_bytes_kept': kept, 'cls': cls.__name__, 'origin': 'conformant'})
        rep.case('rdata|' + rdata.hex())
    return ev


def txt_splits(rep):
    """TXT values whose text is split into character-strings in other ways than the canonical 255-octet chunks"""
    from cryptoparser.dnsrec.record import DnsRecordTxt
    ev = []
    texts = [b'v=spf1 include:_spf.example.com ~all', b'a' * 255 + b'b' * 45, b'k=rsa; p=' + b'Q' * 400, b'x', b'']
    for text in texts:
        n = len(text)
        plans = [[n] if n <= 255 else None, [1, n - 1] if 1 <= n <= 256 else None, [n // 2, n - n // 2] if n <= 510 else None,
                 [0, n] if n <= 255 else None, [n, 0] if n <= 255 else None,
                 [100] * (n // 100) + ([n % 100] if n % 100 else []) if n else None,
                 [200, 200, n - 400] if n > 400 else None]
        for lens in plans:
            if not lens or sum(lens) != n or any(x > 255 or x < 0 for x in lens):
                continue
            wire, pos = b'', 0
            for x in lens:
                wire += bytes([x]) + text[pos:pos + x]
                pos += x
            o, res, _ = call(DnsRecordTxt.parse_exact_size, wire)
            back = False
            if o == 'ok':
                try:
                    back = wire_dns.message_abs(res)[1]['text'] == list(text)
                except Exception:  # pylint: disable=broad-except
                    back = False
            ev.append({'ev': 'alt', 'kind': 'txt', 'abs': {'text': list(text)}, 'lens': lens, 'wire': list(wire), 'out': o, 'back_same': back,
                       'cls': 'DnsRecordTxt', 'origin': 'split:' + '+'.join(str(x) for x in lens)})
            rep.case('txtsplit|' + wire.hex())
    return ev


def run(rep):
    thorough = rep.tier == 'thorough'
    res = tlc.require_ok(tlc.run('MC_DnsWire', workers=1, timeout=300), 'MC_DnsWire')
    rep.add_tlc(res, 'MC_DnsWire (key tag fold lemma over all strings of length 4..6 over {0,1,255})')
    rng = rep.rng
    pool = objects.vector_item_pool()
    events = []
    temps = [(cls, obj) for cls, obj, wire in objects.templates()
             if cls.__module__.startswith('cryptoparser.dnsrec.record') and not isinstance(obj, enum.Enum) and type(obj) is cls]
    temps += [(type(o), o) for o in generated(rep, False)[:12]]
    for cls, obj in temps:
        events += event_for(obj, 'parsed')
        for desc, var in variants.variants(obj, rng, pool, per_field=20 if thorough else 10,
                                           others=[o for c, o in temps if c is cls and o is not obj]):
            events += event_for(var, 'variant:' + desc)
    # instants between two ticks of the field (a datetime taken from a clock has microseconds): the 32-bit second counts of an
    # RRSIG are the whole seconds of the instant
    import attr
    import datetime
    for cls, obj in temps:
        for field in attr.fields(cls) if attr.has(cls) else ():
            value = getattr(obj, field.name, None)
            if isinstance(value, datetime.datetime):
                for micro in (1, 1500, 999999):
                    o2, var, _ = call(lambda m, f=field.name, v=value, ob=obj: attr.evolve(ob, **{f: v.replace(microsecond=m)}), micro)
                    if o2 == 'ok':
                        events += event_for(var, 'variant:%s=+%dus' % (field.name, micro))
    for o in generated(rep, thorough):
        events += event_for(o, 'generated')
    events += conformant_rdata(rep)
    events += txt_splits(rep)
    for e in events:
        rep.case(digest(e.get('wire') or e.get('rdata')))
    kinds = {}
    for e in events:
        k = e.get('kind', e['ev'])
        kinds[k] = kinds.get(k, 0) + 1
    rep.extra['events_by_kind'] = kinds
    rep.extra['odd_length_rdata_key_tags'] = sum(1 for e in events if e['ev'] == 'keytag' and len(e['rdata']) % 2)
    rep.rule = ('records: DNSKEY/DS/RRSIG/MX/TXT/names parsed from the corpus with field variations; DNSKEYs generated for RSA (1, 3, 4, '
                '255, 256, 300 byte exponents; 8k and 8k+4 bit moduli), DSA (T = 0, 1, 8), ECDSA P-256/P-384, GOST, Ed25519; TXT values '
                'of 0..600 characters; names up to 63-byte labels; conformant RDATA assembled from raw key material (Ed448 = 57 octets). '
                'TLC compares compose() with DnsWire.DnsEnc and key_tag with Appendix B / B.1. Distinct by bytes.')
    rep.sample({k: (v if not isinstance(v, list) else v[:30]) for k, v in events[0].items()})
    kt = [e for e in events if e['ev'] == 'keytag']
    if kt:
        rep.sample({'ev': 'keytag', 'rdata_len': len(kt[0]['rdata']), 'key_tag': kt[0]['key_tag']})
    traces = [events[i:i + 300] for i in range(0, len(events), 300)]
    for tup, ti, ei, e in judge.run(rep, 'Trace_DnsWire', list(enumerate(traces)), 'dnswire', max_lines=1500):
        clause = tup[1]
        field = e['origin'].replace('variant:', '') if e['origin'].startswith('variant:') else e['origin']
        if e['ev'] == 'keytag':
            field = 'alg%d' % e['algorithm'] if clause == 'key-tag' else 'key_tag'
        small = {k: (v if not isinstance(v, list) else v[:80]) for k, v in e.items()}
        rep.violation('%s|%s|%s' % (e['cls'], clause, field), '%s: %s [%s]' % (e['cls'], clause, e['origin']), small)
    rep.assumptions += ['DnsWire.tla is my transcription of RFC 1035/2536/3110/4034/6605/8080']


def replay(rep, path):
    run(rep)
