"""C09 - opportunistic-TLS application messages match their protocol specifications."""
import enum
import json

from .. import judge, objects, variants, wire_starttls
from ..api import call
from ..common import digest

LEVEL = 'model_checking'


def event_for(obj, origin, parse_cls=None):
    try:
        ab = wire_starttls.message_abs(obj)
    except Exception:  # pylint: disable=broad-except
        ab = None
    if ab is None:
        return None
    kind, a, typ = ab
    out, wire, _ = call(lambda o: o.compose(), obj)
    if out != 'ok':
        return None
    wire = bytes(wire)
    if len(wire) > 5000:
        return None
    back_same = False
    parsed_type = '-'
    o2, res, _ = call((parse_cls or type(obj)).parse_exact_size, wire)
    if o2 == 'ok':
        try:
            b = wire_starttls.message_abs(res)
            back_same = b is not None and b[0] == kind and json.dumps(b[1], sort_keys=True) == json.dumps(a, sort_keys=True)
            parsed_type = b[2] if b else 'other'
        except Exception:  # pylint: disable=broad-except
            back_same = False
    return {'ev': 'msg', 'kind': kind, 'abs': a, 'wire': list(wire), 'back_same': back_same, 'parsed_type': parsed_type,
            'origin': origin, 'cls': type(obj).__name__}


def ldap_alt_events():
    """LDAP StartTLS messages whose outer SEQUENCE / operation length is written in the BER long form (1, 2 or 4 length octets)"""
    from cryptoparser.tls import ldap as L
    evs = []
    objs = [L.LDAPExtendedRequestStartTLS()] + [L.LDAPExtendedResponseStartTLS(rc) for rc in list(L.LDAPResultCode)[:4] + [L.LDAPResultCode(10)]]
    for obj in objs:
        kind, a, typ = wire_starttls.message_abs(obj)
        wire = bytes(obj.compose())
        # DER layout of the composed message: 30 LL 02 01 id <tag> LL op...
        idp, rest = wire[2:5], wire[5:]
        tag, op = rest[0], rest[2:]
        for where in ('outer', 'op', 'referral'):
            for k in (1, 2, 4):
                if where == 'referral':
                    if tag != 0x78 or k > 2:
                        continue
                    uri = bytes([4, 8]) + b'ldap://h'
                    ref = bytes([0xa3, len(uri) * k]) + uri * k
                    inner = bytes([tag, len(op) + len(ref)]) + op + ref
                    body = idp + inner
                    alt = bytes([0x30, len(body)]) + body
                elif where == 'outer':
                    body = idp + rest
                    alt = bytes([0x30, 0x80 + k]) + len(body).to_bytes(k, 'big') + body
                else:
                    inner = bytes([tag, 0x80 + k]) + len(op).to_bytes(k, 'big') + op
                    body = idp + inner
                    alt = bytes([0x30, len(body)]) + body
                o, res, _ = call(type(obj).parse_immutable, alt)
                back, n = False, 0
                if o == 'ok':
                    try:
                        b = wire_starttls.message_abs(res[0])
                        n = res[1]
                        back = b is not None and b[0] == kind and json.dumps(b[1], sort_keys=True) == json.dumps(a, sort_keys=True)
                    except Exception:  # pylint: disable=broad-except
                        back = False
                evs.append({'ev': 'alt', 'kind': kind, 'abs': a, 'where': where, 'k': k, 'wire': list(alt), 'out': o, 'n': n, 'back_same': back,
                            'origin': 'ber-long-length:%s:%d' % (where, k), 'cls': type(obj).__name__})
    return evs


def generated(rep, thorough):
    from cryptoparser.tls import mysql as M, rdp as R, openvpn as O, ldap as L, postgresql as P
    rng = rep.rng
    out = []
    caps = list(M.MySQLCapability)
    states = list(M.MySQLStatusFlag)
    for i in range(60 if thorough else 20):
        sub = rng.sample(caps, rng.choice([0, 1, 2, 3, len(caps)]))
        if rng.random() < 0.6 and M.MySQLCapability.CLIENT_PLUGIN_AUTH not in sub:
            sub.append(M.MySQLCapability.CLIENT_PLUGIN_AUTH)
        plugin = M.MySQLCapability.CLIENT_PLUGIN_AUTH in sub
        n2 = rng.choice([13, 13, 14, 20, 100, 247])
        try:
            out.append(M.MySQLHandshakeV10(
                protocol_version=M.MySQLVersion.MYSQL_10 if hasattr(M.MySQLVersion, 'MYSQL_10') else list(M.MySQLVersion)[-1],
                server_version=rng.choice(['8.0.36', '5.5.5-10.6.12-MariaDB', 'x', '']), connection_id=rng.choice([0, 1, 2 ** 32 - 1, rng.randrange(2 ** 32)]),
                auth_plugin_data=bytes(rng.randrange(1, 256) for _ in range(8)), capabilities=set(sub),
                character_set=rng.choice(list(M.MySQLCharacterSet)), states=set(rng.sample(states, rng.choice([0, 1, 3, len(states)]))),
                # without CLIENT_PLUGIN_AUTH (servers before 5.5.7) the second part is the 13 bytes of the protocol document
                auth_plugin_data_2=bytes(rng.randrange(1, 256) for _ in range(n2 if plugin else 13)) if plugin or i % 2 else None,
                auth_plugin_name=rng.choice(['mysql_native_password', 'caching_sha2_password', '']) if plugin else None))
        except Exception:  # pylint: disable=broad-except
            pass
        sub2 = rng.sample(caps, rng.choice([0, 1, 3]))
        for p41 in (True, False):
            s3 = set(sub2) | ({M.MySQLCapability.CLIENT_PROTOCOL_41} if p41 else set())
            if not p41:
                s3 = {c for c in s3 if c.value < 2 ** 16 and c != M.MySQLCapability.CLIENT_PROTOCOL_41}
            try:
                out.append(M.MySQLHandshakeSslRequest(s3, rng.choice([0, 1, 0xffff, 2 ** 24 - 1]) if not p41 else rng.choice([0, 2 ** 24, 2 ** 32 - 1]),
                                                      rng.choice(list(M.MySQLCharacterSet)) if p41 else None))
            except Exception:  # pylint: disable=broad-except
                pass
    for n in (0, 1, 255, 256, 65535, 65536, 70000):
        out.append(M.MySQLRecord(packet_number=rng.randrange(256), packet_bytes=bytes(n % 251 for _ in range(min(n, 4000)))))
    for cls in (R.COTPConnectionRequest, R.COTPConnectionConfirm):
        for n in (0, 1, 8, 100, 248):
            out.append(cls(src_ref=rng.randrange(65536), dst_ref=rng.randrange(65536), class_option=0, user_data=bytes(rng.randrange(256) for _ in range(n))))
    for cls, fl in ((R.RDPNegotiationRequest, list(R.RDPNegotiationRequestFlags)), (R.RDPNegotiationResponse, list(R.RDPNegotiationResponseFlags))):
        for k in range(len(fl) + 1):
            for pk in range(len(list(R.RDPProtocol)) + 1):
                out.append(cls(set(rng.sample(fl, k)), set(rng.sample(list(R.RDPProtocol), pk))))
    for n in (0, 1, 2, 100, 255):
        acks = [rng.randrange(2 ** 32) for _ in range(n)]
        for rsid in (0, 1, rng.randrange(2 ** 64)):
            if not n:
                # no acknowledgements but a remote session id given: nothing of it belongs on the wire
                for mk in (lambda: O.OpenVpnPacketAckV1(rng.randrange(2 ** 64), rsid, acks),
                           lambda: O.OpenVpnPacketControlV1(rng.randrange(2 ** 64), acks, rsid, rng.randrange(2 ** 32), b'payload'),
                           lambda: O.OpenVpnPacketHardResetServerV2(rng.randrange(2 ** 64), rsid, acks, rng.randrange(2 ** 32))):
                    try:
                        out.append(mk())
                    except Exception:  # pylint: disable=broad-except
                        pass
            try:
                out.append(O.OpenVpnPacketAckV1(rng.randrange(2 ** 64), rsid if n else None, acks))
                out.append(O.OpenVpnPacketControlV1(rng.randrange(2 ** 64), acks, rsid if n else None, rng.randrange(2 ** 32), bytes(rng.randrange(256) for _ in range(rng.choice([0, 1, 50])))))
                out.append(O.OpenVpnPacketHardResetServerV2(rng.randrange(2 ** 64), rsid if n else None, acks, rng.randrange(2 ** 32)))
            except Exception:  # pylint: disable=broad-except
                pass
    try:
        out.append(O.OpenVpnPacketHardResetClientV2(rng.randrange(2 ** 64), rng.randrange(2 ** 32)))
    except Exception:  # pylint: disable=broad-except
        pass
    for n in (0, 1, 100, 65535):
        out.append(O.OpenVpnPacketWrapperTcp(bytes(n % 256 for _ in range(min(n, 3000)))))
    out.append(L.LDAPExtendedRequestStartTLS())
    for rc in L.LDAPResultCode:
        out.append(L.LDAPExtendedResponseStartTLS(rc))
    out += [P.SslRequest(), P.Sync()]
    return out


def cross_type(rep, events):
    """wire bytes of a request given to the confirm/response parser class and vice versa"""
    from cryptoparser.tls import rdp as R, ldap as L
    pairs = {'COTPConnectionRequest': R.COTPConnectionConfirm, 'COTPConnectionConfirm': R.COTPConnectionRequest,
             'RDPNegotiationRequest': R.RDPNegotiationResponse, 'RDPNegotiationResponse': R.RDPNegotiationRequest,
             'LDAPExtendedRequestStartTLS': L.LDAPExtendedResponseStartTLS, 'LDAPExtendedResponseStartTLS': L.LDAPExtendedRequestStartTLS}
    out = []
    for e in events:
        other = pairs.get(e['cls'])
        if other is None:
            continue
        wire = bytes(e['wire'])
        o, res, _ = call(other.parse_exact_size, wire)
        ptype = '-'
        if o == 'ok':
            b = wire_starttls.message_abs(res)
            ptype = b[2] if b else 'other'
        wt = {'COTPConnectionRequest': 'request', 'COTPConnectionConfirm': 'confirm', 'RDPNegotiationRequest': 'request',
              'RDPNegotiationResponse': 'response', 'LDAPExtendedRequestStartTLS': 'request', 'LDAPExtendedResponseStartTLS': 'response'}[e['cls']]
        out.append({'ev': 'cross', 'cls': other.__name__, 'wire': e['wire'][:40], 'wire_type': wt, 'out': o if o == 'ok' else 'rejected',
                    'parsed_type': ptype, 'origin': 'cross:' + e['cls']})
        rep.case('cross|%s|%s' % (other.__name__, wire.hex()[:80]))
    return out


def run(rep):
    thorough = rep.tier == 'thorough'
    rng = rep.rng
    pool = objects.vector_item_pool()
    events = []
    mods = ('cryptoparser.tls.mysql', 'cryptoparser.tls.rdp', 'cryptoparser.tls.openvpn', 'cryptoparser.tls.ldap', 'cryptoparser.tls.postgresql')
    for cls, obj, wire in objects.templates():
        if cls.__module__ not in mods or isinstance(obj, enum.Enum) or type(obj) is not cls:
            continue
        e = event_for(obj, 'parsed')
        if e:
            events.append(e)
        for desc, var in variants.variants(obj, rng, pool, per_field=20 if thorough else 10):
            e = event_for(var, 'variant:' + desc)
            if e:
                events.append(e)
    for o in generated(rep, thorough):
        e = event_for(o, 'generated')
        if e:
            events.append(e)
    events += cross_type(rep, [e for e in events if e['ev'] == 'msg'])
    alts = ldap_alt_events()
    for e in alts:
        rep.case(digest(['alt', e['wire']]))
    events += alts
    for e in events:
        if e['ev'] == 'msg':
            rep.case(digest([e['kind'], e['wire']]))
    kinds = {}
    for e in events:
        k = e.get('kind', 'cross')
        kinds[k] = kinds.get(k, 0) + 1
    rep.extra['events_by_kind'] = kinds
    rep.rule = ('messages: MySQL packets / HandshakeV10 / SSLRequest (capability and status flag subsets incl. the full sets, auth-plugin '
                'data lengths 13..247, both SSLRequest forms), TPKT, X.224 CR/CC, RDP_NEG_REQ/RSP (every flag count x protocol count), OpenVPN '
                'control packets with 0..255 acknowledgements and zero / non-zero remote session ids, TCP wrapper, PostgreSQL, LDAP StartTLS '
                'with every result code; plus corpus objects and field variations. TLC compares compose() with StartTlsWire.StEnc; '
                'request bytes are also given to the confirm/response parser class and vice versa. Distinct by bytes.')
    rep.sample({k: (v if not isinstance(v, list) else v[:30]) for k, v in events[0].items()})
    rep.sample(events[-1])
    traces = [events[i:i + 300] for i in range(0, len(events), 300)]
    for tup, ti, ei, e in judge.run(rep, 'Trace_StartTlsWire', list(enumerate(traces)), 'starttls', max_lines=1500):
        clause = tup[1]
        field = e['origin'].replace('variant:', '') if e['origin'].startswith('variant:') else e['origin']
        if clause == 'x224-dst-ref-and-src-ref-exchanged':
            field = 'layout'
        small = {k: (v if not isinstance(v, list) else v[:80]) for k, v in e.items()}
        rep.violation('%s|%s|%s' % (e['cls'], clause, field), '%s: %s [%s]' % (e['cls'], clause, e['origin']), small)
    rep.assumptions += ['StartTlsWire.tla is my transcription of the protocol documents; native byte order = little endian on this image',
                        'LDAP message id is 1 as the library composes it']


def replay(rep, path):
    run(rep)
