"""C10 - every wire code point is decoded faithfully or preserved verbatim."""
import enum
import inspect

from .. import corpus, judge
from ..common import digest

LEVEL = 'model_checking'


def be(c, w):
    return c.to_bytes(w, 'big')


def classify_exc(e):
    from cryptodatahub.common.exception import InvalidValue
    from cryptoparser.common.exception import InvalidType, NotEnoughData, TooMuchData
    if isinstance(e, (InvalidValue, InvalidType)):
        return 'invalid'
    return 'error:' + type(e).__name__


def factories():
    from cryptoparser.common.base import NByteEnumParsable
    out = []
    for cls in corpus.all_subclasses(NByteEnumParsable):
        if not cls.__module__.startswith('cryptoparser.'):
            continue
        try:
            en = cls.get_enum_class()
            w = cls.get_byte_num()
        except Exception:  # pylint: disable=broad-except
            continue
        out.append((cls, en, w))
    out.sort(key=lambda t: (t[2], t[0].__name__))
    return out


def containers_of(factory):
    from cryptoparser.common.base import ArrayBase
    res = []
    for cls in corpus.concrete_parsables():
        if issubclass(cls, ArrayBase):
            try:
                p = cls.get_param()
            except Exception:  # pylint: disable=broad-except
                continue
            if getattr(p, 'item_class', None) is factory:
                res.append(cls)
    return res


def code_of(item):
    v = getattr(item, 'value', None)
    if hasattr(v, 'code'):
        return v.code
    return getattr(item, 'code', None)


def single_outcome(factory, members, c, w):
    try:
        m = factory.parse_exact_size(be(c, w))
    except Exception as e:  # pylint: disable=broad-except
        return 0 if classify_exc(e) == 'invalid' else -4
    for k, mm in enumerate(members):
        if mm is m:
            return k + 1
    if code_of(m) == c:
        return -1
    return -2


def list_outcome(vec, members, known, c, w, cknown):
    from cryptoparser.common.base import ArrayBase
    p = vec.get_param()
    body = be(code_of(known), w) + be(c, w) + be(code_of(known), w)
    data = len(body).to_bytes(p.item_num_size, 'big') + body
    try:
        v = vec.parse_exact_size(data)
    except Exception as e:  # pylint: disable=broad-except
        return 0 if classify_exc(e) == 'invalid' else -4
    items = list(v)
    if len(items) != 3:
        return -1
    if items[0] is not known or items[2] is not known:
        return -2
    mid = items[1]
    if cknown:
        if not (isinstance(mid, enum.Enum) and code_of(mid) == c and mid in members):
            return -2
    else:
        if isinstance(mid, enum.Enum) and mid in members:
            return -2          # an unknown code became a member
        if code_of(mid) != c:
            return -2
    try:
        if bytes(v.compose()) != data:
            return -3
    except Exception:  # pylint: disable=broad-except
        return -3
    return 1


def space_job(arg):
    idx, seed, thorough = arg
    import random
    corpus.import_all()
    factory, en, w = factories()[idx]
    rng = random.Random('%s:%s' % (seed, factory.__name__))
    events = []
    cases = []
    members = list(en)
    table = [{'name': m.name, 'code': code_of(m)} for m in members]
    name = factory.__module__.replace('cryptoparser.', '') + '.' + factory.__name__
    vecs = containers_of(factory)
    codes = {t['code'] for t in table}
    known = members[0]
    if w <= 2:
        space = 256 ** w
        single = [single_outcome(factory, members, c, w) for c in range(space)]
        events.append({'ev': 'space', 'enum': name, 'w': w, 'space': space, 'table': table, 'single': single, 'list': [],
                       'container': '-'})
        for vec in vecs:
            lst = [list_outcome(vec, members, known, c, w, c in codes) for c in range(space)]
            events.append({'ev': 'space', 'enum': name, 'w': w, 'space': space, 'table': table, 'single': single,
                           'list': lst, 'container': vec.__name__})
    else:
        probes = set(codes)
        for c in list(codes):
            probes |= {c + 1, c - 1} | {c ^ (1 << b) for b in range(8 * w)}
        probes |= {0, 1, 256 ** w - 1, 256 ** w - 2, 2 ** (8 * w - 1)}
        probes |= {rng.randrange(256 ** w) for _ in range(3000 if thorough else 300)}
        for c in sorted(p for p in probes if 0 <= p < 256 ** w):
            r = single_outcome(factory, members, c, w)
            outcome = {0: 'invalid', -1: 'preserved', -2: 'altered', -4: 'error'}.get(r, 'member')
            if r > 0 and code_of(members[r - 1]) != c:
                outcome = 'redirected'
            events.append({'ev': 'probe', 'enum': name, 'code': str(c), 'known': c in codes, 'outcome': outcome,
                           'listoutcome': '-'})
            cases.append('%s|%d' % (name, c))
    return events, cases


def numeric_spaces(rep, thorough):
    from ..par import pmap
    corpus.import_all()
    events = []
    # one-byte spaces first, then the two-byte ones, in one deterministic order (history matters for caches)
    for evs, cases in pmap(space_job, [(i, rep.seed, thorough) for i in range(len(factories()))]):
        events += evs
        for c in cases:
            rep.case(c)
        for e in evs:
            if e['ev'] == 'space':
                rep.evaluations += e['space']
                rep.distinct.add(e['enum'] + e['container'])
    return events


def cross_width_histories(rep):
    """the same number as a one-byte code and as a two-byte code, decoded one after the other in one process
    (in both orders): each must still be preserved verbatim in its own width"""
    events = []
    fs = factories()
    one = [(f, en, w, containers_of(f)) for f, en, w in fs if w == 1]
    two = [(f, en, w, containers_of(f)) for f, en, w in fs if w == 2]
    one = [t for t in one if t[3]][:3]
    two = [t for t in two if t[3]][:4]
    for f1, en1, _, v1 in one:
        for f2, en2, _, v2 in two:
            m1, m2 = list(en1), list(en2)
            c1, c2 = {code_of(m) for m in m1}, {code_of(m) for m in m2}
            for n in rep.rng.sample(range(256), 20):
                for order in ((1, 2), (2, 1)):
                    res = {}
                    for which in order:
                        if which == 1:
                            res[1] = list_outcome(v1[0], m1, m1[0], n, 1, n in c1)
                        else:
                            res[2] = list_outcome(v2[0], m2, m2[0], n, 2, n in c2)
                    for which, r in sorted(res.items()):
                        lo = {1: 'ok', 0: 'rejected', -1: 'dropped', -2: 'redirected', -3: 'reencoded'}.get(r, 'error')
                        vec = (v1 if which == 1 else v2)[0].__name__
                        events.append({'ev': 'probe', 'enum': vec + '(after the other width)', 'code': '%d as %d byte, order %s' % (n, which, order),
                                       'known': False, 'outcome': 'invalid', 'listoutcome': lo})
                        rep.case('cross|%s|%d|%s' % (vec, n, order))
    return events


def int_tables():
    """IntEnum declarations of the library: aliases are visible through __members__"""
    events = []
    seen = set()
    for mod in corpus.import_all():
        for name, c in sorted(vars(mod).items()):
            if isinstance(c, type) and issubclass(c, enum.Enum) and c.__module__ == mod.__name__ and c not in seen:
                seen.add(c)
                table = []
                for mname, m in c.__members__.items():
                    code = m.value if isinstance(m.value, int) else getattr(m.value, 'code', None)
                    if isinstance(code, bool) or not isinstance(code, (int, str)):
                        continue
                    if isinstance(code, int) and code >= 2 ** 31:
                        code = str(code)
                    table.append({'name': mname, 'code': code})
                if len(table) >= 2 and len({type(t['code']) for t in table}) == 1:
                    events.append({'ev': 'table', 'enum': mod.__name__.replace('cryptoparser.', '') + '.' + c.__name__,
                                   'table': table})
    return events


def record_level(rep):
    """content type / alert description code spaces through their enclosing messages"""
    from cryptoparser.tls.record import TlsRecord
    from cryptoparser.tls.subprotocol import TlsContentType, TlsAlertMessage, TlsAlertDescription, TlsAlertLevel
    events = []
    for label, en, mk, get in (
            ('tls.subprotocol.TlsContentType@TlsRecord', TlsContentType, lambda c: bytes([c, 3, 3, 0, 1, 0]), lambda o: o.content_type),
            ('tls.subprotocol.TlsAlertDescription@TlsAlertMessage', TlsAlertDescription, lambda c: bytes([2, c]), lambda o: o.description),
            ('tls.subprotocol.TlsAlertLevel@TlsAlertMessage', TlsAlertLevel, lambda c: bytes([c, 40]), lambda o: o.level)):
        members = list(en)
        table = [{'name': m.name, 'code': int(m)} for m in members]
        cls = TlsRecord if 'Record' in label else TlsAlertMessage
        single = []
        for c in range(256):
            data = mk(c)
            try:
                o = cls.parse_exact_size(data)
                m = get(o)
                r = members.index(m) + 1 if m in members else -2
                if bytes(o.compose()) != data:
                    r = -3
            except Exception as e:  # pylint: disable=broad-except
                r = 0 if classify_exc(e) == 'invalid' else -4
            single.append(r)
        events.append({'ev': 'space', 'enum': label, 'w': 1, 'space': 256, 'table': table, 'single': single, 'list': [],
                       'container': '-'})
        rep.evaluations += 256
        rep.distinct.add(label)
    return events


def string_enums(rep):
    from cryptoparser.common.base import StringEnumParsableBase, OpaqueEnumParsable, StringEnumCaseInsensitiveParsable, ArrayBase
    events = []
    # enums that parse themselves by name
    for cls in corpus.all_subclasses(StringEnumParsableBase):
        if not (isinstance(cls, type) and issubclass(cls, enum.Enum)) or not cls.__module__.startswith('cryptoparser.'):
            continue
        members = list(cls)
        if not members:
            continue
        insensitive = issubclass(cls, StringEnumCaseInsensitiveParsable)
        name = cls.__module__.replace('cryptoparser.', '') + '.' + cls.__name__
        codes = {m.value.code: m for m in members}
        for m in members:
            code = m.value.code
            variants = [(code, True), (code + 'x', False), (code[:-1], False), ('x' + code, False),
                        (code.swapcase(), False), (code + '\xff', False)]
            for text, is_code in variants:
                if not text:
                    continue
                known = text in codes or (insensitive and text.lower() in {k.lower() for k in codes})
                expect = codes.get(text)
                try:
                    data = text.encode('latin-1')
                    r = cls.parse_exact_size(data)
                    if known:
                        ok = (r is expect) if expect is not None else (r.value.code.lower() == text.lower())
                        outcome = 'member' if ok else 'redirected'
                    else:
                        outcome = 'redirected'      # an unknown name was accepted as some member
                    if outcome == 'member' and expect is not None and r.compose() != data:
                        outcome = 'reencoded'
                except Exception as e:  # pylint: disable=broad-except
                    outcome = 'invalid' if classify_exc(e) in ('invalid', 'error:TooMuchData', 'error:NotEnoughData') else 'error'
                events.append({'ev': 'probe', 'enum': name, 'code': repr(text), 'known': bool(known and expect is not None),
                               'outcome': outcome, 'listoutcome': '-'})
                rep.case('%s|%r' % (name, text))
    # length-prefixed names (ALPN / NPN) alone and in their list
    for factory in corpus.all_subclasses(OpaqueEnumParsable):
        if not factory.__module__.startswith('cryptoparser.') or inspect.isabstract(factory):
            continue
        try:
            en = factory.get_enum_class()
        except Exception:  # pylint: disable=broad-except
            continue
        members = list(en)
        name = factory.__module__.replace('cryptoparser.', '') + '.' + factory.__name__
        lists = containers_of(factory)
        codes = {m.value.code.encode('utf-8'): m for m in members}
        probes = []
        for raw, m in codes.items():
            probes += [(raw, m), (raw + b'x', None), (raw[:-1], None), (raw + b'\xff', None), (raw.swapcase(), None),
                       (b'\xff' + raw, None), (raw + b'\xc3\xa9', None)]
        for raw, m in probes:
            if not raw or len(raw) > 255:
                continue
            m = codes.get(raw)
            data = bytes([len(raw)]) + raw
            try:
                r = factory.parse_exact_size(data)
                outcome = 'member' if (m is not None and r is m) else 'redirected'
                if outcome == 'member' and hasattr(r, 'compose') and bytes(r.compose()) != data:
                    outcome = 'reencoded'
            except Exception as e:  # pylint: disable=broad-except
                outcome = 'invalid' if classify_exc(e) == 'invalid' else 'error'
            lo = '-'
            for lst in lists:
                k = members[0].value.code.encode('utf-8')
                body = bytes([len(k)]) + k + data + bytes([len(k)]) + k
                ld = len(body).to_bytes(lst.get_param().item_num_size, 'big') + body
                try:
                    v = lst.parse_exact_size(ld)
                    items = list(v)
                    if len(items) != 3:
                        lo = 'dropped'
                    elif m is None or items[1] is not m:
                        lo = 'redirected'
                    elif bytes(v.compose()) != ld:
                        lo = 'reencoded'
                    else:
                        lo = 'ok'
                except Exception as e:  # pylint: disable=broad-except
                    lo = 'rejected' if classify_exc(e) == 'invalid' else 'error'
            events.append({'ev': 'probe', 'enum': name, 'code': raw.hex(), 'known': m is not None, 'outcome': outcome,
                           'listoutcome': lo})
            rep.case('%s|%s' % (name, raw.hex()))
    # SSH name-lists: known and unknown names are kept verbatim and in order
    from cryptoparser.common.base import VectorString
    for vec in corpus.concrete_parsables():
        if not (issubclass(vec, VectorString) and 'Algorithm' in vec.__name__):
            continue
        p = vec.get_param()
        en = p.item_class
        names = [m.value.code for m in list(en)[:6]] if isinstance(en, type) and issubclass(en, enum.Enum) else []
        for trial in ([names[0], 'unknown-alg@example.com', names[-1]] if names else [],
                      ['x', names[0] + 'x', names[0][:-1]] if names else [],
                      names[:4][::-1], []):
            body = ','.join(trial).encode('ascii')
            data = len(body).to_bytes(4, 'big') + body
            try:
                v = vec.parse_exact_size(data)
                got = [getattr(getattr(x, 'value', None), 'code', x) for x in v]
                if len(got) != len(trial):
                    lo = 'dropped'
                elif got != trial:
                    lo = 'redirected'
                elif bytes(v.compose()) != data:
                    lo = 'reencoded'
                else:
                    lo = 'ok'
            except Exception as e:  # pylint: disable=broad-except
                lo = 'rejected' if classify_exc(e) == 'invalid' else 'error'
            events.append({'ev': 'probe', 'enum': vec.__name__, 'code': ','.join(trial), 'known': False, 'outcome': 'invalid',
                           'listoutcome': lo})
            rep.case('%s|%s' % (vec.__name__, ','.join(trial)))
    # names that are length-prefixed strings inside a list entry (OpenSSH certificate options / extensions: string name,
    # string data): a name that only STARTS like a known one, or is cut short, is another name - kept verbatim or refused
    import struct
    from cryptoparser.ssh import key as ssh_key
    for vec in (ssh_key.SshCertExtensionVector, ssh_key.SshCertCriticalOptionVector, ssh_key.SshCertConstraintVector):
        for m in ssh_key.SshCertExtensionName:
            code = m.value.code
            for text in (code + '2', code + '-x', code[:-1], 'x' + code, code.upper()):
                entry = struct.pack('>I', len(text)) + text.encode('ascii') + struct.pack('>I', 0)
                data = struct.pack('>I', len(entry)) + entry
                try:
                    v = vec.parse_exact_size(data)
                    items = list(v)
                    name = getattr(items[0], 'extension_name', None) if len(items) == 1 else None
                    if len(items) != 1:
                        lo = 'dropped'
                    elif getattr(getattr(name, 'value', None), 'code', name) != text:
                        lo = 'redirected'
                    elif bytes(v.compose()) != data:
                        lo = 'reencoded'
                    else:
                        lo = 'ok'
                except Exception as e:  # pylint: disable=broad-except
                    lo = 'rejected' if classify_exc(e) == 'invalid' else 'error'
                events.append({'ev': 'probe', 'enum': vec.__name__, 'code': text, 'known': False, 'outcome': 'invalid', 'listoutcome': lo})
                rep.case('%s|%s' % (vec.__name__, text))
    # a list that holds exactly ONE known code (what a peer with one algorithm sends): accepted, that member, same bytes again -
    # for every list class over coded enumerations, whatever the widths of its length prefix and of its codes
    from cryptoparser.common.base import ArrayBase
    for vec in corpus.concrete_parsables():
        if not issubclass(vec, ArrayBase):
            continue
        try:
            p = vec.get_param()
            factory = p.item_class
            members = list(factory.get_enum_class())
            codes = [(m, code_of(m)) for m in members if isinstance(code_of(m), int)]
            width = len(bytes(members[0].compose())) if hasattr(members[0], 'compose') else factory.get_byte_num()
        except Exception:  # pylint: disable=broad-except
            continue
        if not codes or getattr(p, 'min_byte_num', 0) > width or getattr(p, 'item_num_size', 0) not in (1, 2, 3, 4):
            continue
        for m, c in (codes[0], codes[-1]):
            data = int(width).to_bytes(p.item_num_size, 'big') + int(c).to_bytes(width, 'big')
            try:
                v = vec.parse_exact_size(data)
                items = list(v)
                lo = 'dropped' if len(items) != 1 else 'redirected' if items[0] is not m else 'reencoded' if bytes(v.compose()) != data else 'ok'
            except Exception as e:  # pylint: disable=broad-except
                lo = 'error'          # a complete list of one known code: no refusal is right
            events.append({'ev': 'probe', 'enum': vec.__name__, 'code': 'single:%s' % getattr(m, 'name', c), 'known': True, 'outcome': 'member', 'listoutcome': lo})
            rep.case('%s|single|%s' % (vec.__name__, c))
    # an item of unknown type that is cut off by the end of its list (declares more bytes than the list holds): refused, never
    # silently left out with everything behind it
    from cryptoparser.tls import extension as tls_ext
    for vec in (tls_ext.TlsExtensionsClient, tls_ext.TlsExtensionsServer):
        for unknown in (b'\xfa\xfa', b'\x12\x34', b'\x00\x0f'):
            body = b'\xff\x01\x00\x01\x00' + unknown + b'\x00\x05\x01'
            data = len(body).to_bytes(2, 'big') + body
            try:
                v = vec.parse_exact_size(data)
                lo = 'dropped' if len(list(v)) != 2 or bytes(v.compose()) != data else 'ok'
            except Exception as e:  # pylint: disable=broad-except
                lo = 'rejected' if classify_exc(e) in ('invalid', 'error:NotEnoughData', 'error:TooMuchData') else 'error'
            events.append({'ev': 'probe', 'enum': vec.__name__, 'code': 'cut-off:' + unknown.hex(), 'known': False, 'outcome': 'invalid', 'listoutcome': lo})
            rep.case('%s|cut-off|%s' % (vec.__name__, unknown.hex()))
    return events


def holder_probes(rep, thorough):
    """a code point inside the message that carries it: every enum-valued field of every corpus object is set to the members of
    its enumeration (through the constructor), composed and parsed back; the field must come back as that member"""
    import attr
    import enum
    from .. import objects
    from ..api import call
    events = []
    seen = set()
    for cls, obj, wire in objects.templates():
        if isinstance(obj, enum.Enum) or type(obj) is not cls or not attr.has(cls):
            continue
        for f in attr.fields(cls):
            if not f.init:
                continue
            cur = getattr(obj, f.name, None)
            if not isinstance(cur, enum.Enum) or (cls, f.name) in seen:
                continue
            seen.add((cls, f.name))
            members = list(type(cur))
            if len(members) > (40 if thorough else 10):
                members = members[:6] + members[-4:]
            for m in members:
                out, var, _ = call(lambda mm: attr.evolve(obj, **{f.name.lstrip('_'): mm}), m)
                if out != 'ok':
                    continue
                o1, w, _ = call(lambda v: bytes(v.compose()), var)
                if o1 != 'ok':
                    continue
                o2, back, _ = call(cls.parse_exact_size, w)
                if o2 != 'ok':
                    outcome, known = ('invalid', False) if o2 in ('InvalidValue', 'InvalidType', 'NotEnoughData', 'TooMuchData') else ('error', True)
                else:
                    got = getattr(back, f.name, None)
                    known = True
                    outcome = 'member' if got is m or got == m else 'redirected' if isinstance(got, enum.Enum) else 'altered'
                events.append({'ev': 'probe', 'enum': '%s.%s' % (cls.__name__, f.name), 'code': m.name, 'known': known, 'outcome': outcome,
                               'listoutcome': '-', 'wire': w.hex()[:200]})
    return events


def registry_events():
    """the IntEnum tables defined in the repository, by class name, for CodeTable.tla"""
    import enum
    import importlib
    import inspect
    import pkgutil
    import cryptoparser
    events, seen = [], set()
    for m in pkgutil.walk_packages(cryptoparser.__path__, 'cryptoparser.'):
        try:
            mod = importlib.import_module(m.name)
        except Exception:  # pylint: disable=broad-except
            continue
        for n, c in inspect.getmembers(mod, inspect.isclass):
            if issubclass(c, enum.IntEnum) and c.__module__ == mod.__name__ and c not in seen:
                seen.add(c)
                events.append({'ev': 'registry', 'enum': n, 'module': mod.__name__.replace('cryptoparser.', ''),
                               'table': [{'name': k, 'code': int(v)} for k, v in c.__members__.items() if abs(int(v)) < 2 ** 31]})
            elif issubclass(c, enum.Enum) and c.__module__ == mod.__name__ and c not in seen:
                seen.add(c)
                table = []
                for k, v in c.__members__.items():
                    text = getattr(v.value, 'code', v.value)
                    if isinstance(text, str):
                        table.append({'name': k, 'text': text})
                if table:
                    events.append({'ev': 'strregistry', 'enum': n, 'module': mod.__name__.replace('cryptoparser.', ''), 'table': table})
    return events


def signalling_probes():
    """the two signalling cipher suite values inside a client hello: every combination of 0x00ff / 0x5600 present on the wire
    (as list members or as the flags of the object) survives parse and compose"""
    import attr
    from .. import objects
    from ..api import call
    from cryptoparser.tls.subprotocol import TlsHandshakeClientHello
    events = []
    temps = [o for c, o, w in objects.templates() if c is TlsHandshakeClientHello][:2]
    for obj in temps:
        for fb in (False, True):
            for rn in (False, True):
                o0, var, _ = call(lambda x: attr.evolve(x, fallback_scsv=fb, empty_renegotiation_info_scsv=rn), obj)
                if o0 != 'ok':
                    continue
                o1, w, _ = call(lambda v: bytes(v.compose()), var)
                o2, back, _ = call(TlsHandshakeClientHello.parse_exact_size, w) if o1 == 'ok' else ('-', None, None)
                o3, w2, _ = call(lambda v: bytes(v.compose()), back) if o2 == 'ok' else ('-', None, None)
                want = ([b'\x56\x00'] if fb else []) + ([b'\x00\xff'] if rn else [])
                ok = o3 == 'ok' and w2 == w and bool(back.fallback_scsv) == fb and bool(back.empty_renegotiation_info_scsv) == rn
                if ok:
                    # the suites list on the wire: after version(2) random(32) session id
                    body = w[4:]
                    p = 2 + 32
                    p += 1 + body[p]
                    n = int.from_bytes(body[p:p + 2], 'big')
                    suites = [body[p + 2 + i:p + 4 + i] for i in range(0, n, 2)]
                    ok = all(x in suites for x in want) and (fb or b'\x56\x00' not in suites) and (rn or b'\x00\xff' not in suites)
                events.append({'ev': 'probe', 'enum': 'TlsHandshakeClientHello.cipher_suites(signalling values)',
                               'code': 'fallback=%s,renegotiation=%s' % (fb, rn), 'known': True,
                               'outcome': 'member' if ok else 'altered', 'listoutcome': '-', 'wire': (w or b'').hex()[:200]})
    return events


def run(rep):
    thorough = rep.tier == 'thorough'
    corpus.import_all()
    events = numeric_spaces(rep, thorough) + cross_width_histories(rep) + record_level(rep) + int_tables() + string_enums(rep)
    reg = registry_events()
    rep.extra['repository_enum_tables_checked_against_documents'] = {e['enum']: len(e['table']) for e in reg}
    for e in reg:
        for t in e['table']:
            rep.case('registry|%s|%s' % (e['enum'], t['name']))
    events += reg
    hp = holder_probes(rep, thorough) + signalling_probes()
    rep.extra['holder_field_probes'] = len(hp)
    for e in hp:
        rep.case('holder|%s|%s' % (e['enum'], e['code']))
    events += hp
    spaces = [e for e in events if e['ev'] == 'space']
    rep.extra['exhaustive_code_spaces'] = sorted({'%s (%d codes)%s' % (e['enum'], e['space'], '' if e['container'] == '-' else ' in ' + e['container']) for e in spaces})
    rep.extra['tables_checked_for_aliases'] = len([e for e in events if e['ev'] == 'table'])
    rep.exhaustive = True
    rep.rule = ('exhaustive: every value of every 1- and 2-byte code space is decoded alone and as the middle item of its list '
                'container(s); 3/4-byte spaces: all members, +-1 and one-bit neighbours, boundaries and a random sample; string '
                'coded enumerations: every member and near-miss names, alone and in lists; all Enum tables checked for aliases. '
                'A case is one (enumeration, code).')
    rep.sample({k: (v if not isinstance(v, list) else v[:12]) for k, v in spaces[0].items()})
    rep.sample([e for e in events if e['ev'] == 'probe'][0])
    traces = [[e] for e in spaces] + [[e for e in events if e['ev'] != 'space'][i:i + 1500]
                                      for i in range(0, len([e for e in events if e['ev'] != 'space']), 1500)]
    for tup, ti, ei, e in judge.run(rep, 'Trace_CodePoint', list(enumerate(traces)), 'codes', max_lines=4):
        clause = tup[1]
        if clause == '-':
            continue
        code = tup[3] if len(tup) > 3 else 0
        what = e.get('enum')
        if e['ev'] == 'strregistry':
            t = e['table'][code - 1]
            rep.violation('%s|%s|%s' % (what, clause, t['name']), '%s.%s is written %r, the protocol document spells it differently' % (what, t['name'], t['text']),
                          {'enum': what, 'module': e['module'], 'member': t['name'], 'text': t['text']})
            continue
        if e['ev'] == 'registry':
            t = e['table'][code - 1]
            rep.violation('%s|%s|%s' % (what, clause, t['name']), '%s.%s = %d differs from the number the protocol document assigns' % (what, t['name'], t['code']),
                          {'enum': what, 'module': e['module'], 'member': t['name'], 'code': t['code']})
            continue
        if e['ev'] == 'space':
            where = e['container'] if clause.startswith('list') or 'dropped' in clause else 'decode'
            detail = {'enum': what, 'code': code, 'container': e['container'],
                      'single_outcome': e['single'][code] if code < len(e['single']) else None,
                      'list_outcome': e['list'][code] if e['list'] and code < len(e['list']) else None}
            names = [t['name'] for t in e['table'] if t['code'] == code]
            rep.violation('%s|%s|%s' % (what, clause, where), '%s: %s (first code 0x%x %s)' % (what, clause, code, names), detail)
        elif e['ev'] == 'table':
            dup = {}
            for t in e['table']:
                dup.setdefault(t['code'], []).append(t['name'])
            al = sorted(v for v in dup.values() if len(v) > 1)
            for names in al:
                if set(names) in ({'DH_KEX_REPLY', 'DH_GEX_GROUP'}, {'DH_KEX_INIT', 'DH_GEX_REQUEST_OLD'}):
                    continue
                rep.violation('%s|%s|%s' % (what, clause, '='.join(names)), '%s: %s share one code' % (what, names),
                              {'enum': what, 'names': names})
        else:
            rep.violation('%s|%s|%s' % (what, clause, 'probe' if 'wire' not in e else 'in-message:' + e['code']),
                          '%s: %s for %s' % (what, clause, e['code']), e)
    rep.assumptions += ['protocol-assigned shared numbers: SSH message codes 30/31 (RFC 4253 / RFC 4419)']


def replay(rep, path):
    run(rep)
