"""C11 - integer, flag, mpint and timestamp primitives are exact and never truncate."""
import calendar
import datetime
import enum
import os
import time

from .. import tlc, judge
from ..common import digest

LEVEL = 'model_checking'
ORDERS = ['!', '>', '<', '=']
TZS = ['UTC', 'Europe/Moscow', 'America/Caracas', 'Australia/Lord_Howe', 'Asia/Kathmandu', 'Pacific/Apia',
       'America/New_York', 'Europe/London', 'Australia/Sydney', 'JST-9', 'EST5EDT,M3.2.0,M11.1.0', 'XXX+03:30',
       'Asia/Kolkata', 'America/St_Johns', 'Africa/Casablanca']


def digits(n):
    out = []
    while n:
        out.append(n & 0xff)
        n >>= 8
    return out[::-1]


def call(f):
    from cryptodatahub.common.exception import InvalidValue
    try:
        return 'ok', f()
    except InvalidValue:
        return 'InvalidValue', None
    except Exception as e:  # pylint: disable=broad-except
        return type(e).__name__, None


def order_of(o):
    from cryptoparser.common.parse import ByteOrder
    return {'!': ByteOrder.NETWORK, '>': ByteOrder.BIG_ENDIAN, '<': ByteOrder.LITTLE_ENDIAN, '=': ByteOrder.NATIVE}[o]


def compose_int(v, w, o):
    from cryptoparser.common.parse import ComposerBinary

    def f():
        c = ComposerBinary(byte_order=order_of(o))
        c.compose_numeric(v, w)
        return list(bytes(c.composed_bytes))
    return call(f)


PREFIXES = (bytes([0xff] * 5), bytes([0x00, 0x80, 0x7f, 0x00, 0x01]), b'\x80')


def cursor_event(prim, label, make_parser, parse, wire):
    """the same field behind other bytes (cursor > 0) and in front of other bytes: same value, same consumed length"""
    from ..api import call as api_call
    p0 = make_parser(bytes(wire))
    o0 = api_call(lambda p: parse(p), p0)[0]
    same = True
    if o0 == 'ok':
        for prefix in PREFIXES:
            for suffix in (b'', b'\xff\x00\xff'):
                p1 = make_parser(prefix + bytes(wire) + suffix)
                p1.parse_raw('verif_prefix', len(prefix))
                o1 = api_call(lambda p: parse(p), p1)[0]
                if o1 != 'ok' or p1['v'] != p0['v'] or p1.parsed_length != len(prefix) + p0.parsed_length:
                    same = False
    return {'k': 'cursor', 'prim': prim, 'label': label, 'same': same, 'wire': list(wire[:64])}


def int_events(rep, thorough):
    from cryptoparser.common.parse import ComposerBinary, ParserBinary
    rng = rep.rng
    ev = []
    # exhaustive 1- and 2-byte spaces (3-byte: thorough, big blocks), four byte orders, blocks of 256 values
    for o in ORDERS:
        for w, top in ((1, 256), (2, 65536)) + (((3, 2 ** 24),) if thorough else ()):
            step = 256 if w < 3 else 4096
            for start in range(0, top, step):
                if w == 3 and not thorough:
                    continue
                # the 3-byte space is covered completely in network order only (4096 blocks of 4096 values would be 1.5 GB of
                # trace per byte order); the other orders get every 16th block and the blocks at the ends and in the middle
                if w == 3 and o != '!' and (start // step) % 16 and start not in (0, top - step, top // 2 - step, top // 2):
                    continue
                c = ComposerBinary(byte_order=order_of(o))
                c.compose_numeric_array(list(range(start, start + step)), w)
                wire = bytes(c.composed_bytes)
                ev.append({'k': 'cblock', 'w': w, 'order': o, 'start': start, 'count': step, 'wire': list(wire)})
                p = ParserBinary(wire, byte_order=order_of(o))
                p.parse_numeric_array('v', step, w)
                ev.append({'k': 'pblock', 'w': w, 'order': o, 'start': start, 'count': step, 'vals': list(p['v'])})
                rep.case('block|%s|%d|%d' % (o, w, start))
        if not thorough:   # 3-byte space: boundaries and a sample of blocks
            for start in [0, 0xffff00, 0x7fff80, 0x800000 - 128, 0x10000 - 128] + [rng.randrange(0, 2 ** 24 - 256) for _ in range(12)]:
                c = ComposerBinary(byte_order=order_of(o))
                c.compose_numeric_array(list(range(start, start + 256)), 3)
                ev.append({'k': 'cblock', 'w': 3, 'order': o, 'start': start, 'count': 256, 'wire': list(bytes(c.composed_bytes))})
                rep.case('block|%s|3|%d' % (o, start))
    # single values: boundaries of every width, out-of-range and random ones
    for o in ORDERS:
        for w in (1, 2, 3, 4, 8):
            top = 256 ** w
            vals = [0, 1, 127, 128, 255, 256, top // 2 - 1, top // 2, top - 2, top - 1, top, top + 1, top * 256, top * 256 + 5,
                    2 ** 63, 2 ** 64, 2 ** 64 + 1, 2 ** 70]
            vals += [rng.randrange(top) for _ in range(20 if thorough else 6)]
            vals += [top + rng.randrange(top) for _ in range(4)]
            for v in vals:
                out, wire = compose_int(v, w, o)
                ev.append({'k': 'cint', 'w': w, 'order': o, 'd': digits(v), 'out': out, 'wire': wire or []})
                rep.case('cint|%s|%d|%d' % (o, w, v))
                if out == 'ok' and len(wire) == w:
                    p = ParserBinary(bytes(wire), byte_order=order_of(o))
                    out2, _ = call(lambda: p.parse_numeric('v', w))
                    ev.append({'k': 'pint', 'w': w, 'order': o, 'wire': wire, 'd': digits(p['v']) if out2 == 'ok' else [],
                               'out': out2, 'n': p.parsed_length})
                    ev.append(cursor_event('numeric', '%s|%d|%d' % (o, w, v), lambda b, o=o: ParserBinary(b, byte_order=order_of(o)),
                                           lambda p, w=w: p.parse_numeric('v', w), bytes(wire)))
            for v in (-1, -top, -255):
                out, wire = compose_int(v, w, o)
                ev.append({'k': 'cneg', 'w': w, 'order': o, 'out': out, 'v': str(v)})
                rep.case('cneg|%s|%d|%d' % (o, w, v))
    return ev


def flag_events(rep, thorough):
    from cryptoparser.common.parse import ComposerBinary, ParserBinary, ByteOrder
    from cryptoparser import tls
    import cryptoparser.tls.mysql as M
    import cryptoparser.tls.rdp as R
    import cryptoparser.dnsrec.record as D
    rng = rep.rng
    ev = []
    specs = []
    for mod in (M, R, D):
        for name in dir(mod):
            c = getattr(mod, name)
            if isinstance(c, type) and issubclass(c, enum.IntEnum) and c is not enum.IntEnum and ('Flag' in name or 'Capability' in name):
                specs.append(c)
    for cls in specs:
        members = list(cls)
        width = 4 if max(members) >= 2 ** 16 else 2
        subsets = [[]] + [[m] for m in members] + [members]
        for _ in range(40 if thorough else 12):
            subsets.append(rng.sample(members, rng.randint(2, min(4, len(members)))))
        # a collection that names a member twice (a list built by concatenation): the field is the OR, not the sum
        subsets += [[members[0], members[0]], [members[-1], members[0], members[-1]], members + members[:1]]
        for sub in subsets:
            for shift in ((0, 16) if width == 4 else (0,)):
                w = 2 if shift else width
                # members representable in this field: non-zero after the shift and within the width
                sel = [m for m in sub if (m >> shift) and (m >> shift) < 256 ** w]
                vals = [m >> shift for m in sel]
                c = ComposerBinary()
                out, _ = call(lambda: c.compose_numeric_flags(sel, w, shift))
                wire = bytes(c.composed_bytes)
                back = []
                if out == 'ok':
                    p = ParserBinary(wire)
                    call(lambda: p.parse_numeric_flags('f', w, cls, shift))
                    try:
                        back = sorted(int(x) for x in p['f'])
                    except Exception:  # pylint: disable=broad-except
                        back = [-1]
                ev.append({'k': 'flags', 'enum': cls.__name__, 'w': w, 'shift': shift, 'members': [digits(v) for v in vals],
                           'ids': sorted({int(m) for m in sel if m}), 'back': back, 'wire': list(wire), 'out': out})
                rep.case('flags|%s|%s|%d' % (cls.__name__, [int(m) for m in sel], shift))
    return ev


def message_flag_events(rep, thorough):
    """flag sets inside the messages that carry them (MySQL capabilities split over two fields, DNSKEY flags, RDP flags): every
    corpus object with a set-of-flags field, with each single member added to / removed from the set through the constructor;
    compose then parse must give the same set back (a member lost on the way is a truncation)"""
    import attr
    from .. import objects
    ev = []
    seen = {}
    for cls, obj, wire in objects.templates():
        if isinstance(obj, enum.Enum) or type(obj) is not cls or not attr.has(cls):
            continue
        for f in attr.fields(cls):
            cur = getattr(obj, f.name, None)
            if not f.init or not isinstance(cur, (set, frozenset)) or not cur or not all(isinstance(x, enum.IntEnum) for x in cur):
                continue
            if seen.get((cls, f.name), 0) >= 2:
                continue
            seen[(cls, f.name)] = seen.get((cls, f.name), 0) + 1
            etype = type(next(iter(cur)))
            for m in etype:
                for sub in (set(cur) | {m}, set(cur) - {m}):
                    if sub == set(cur):
                        continue
                    try:
                        var = attr.evolve(obj, **{f.name.lstrip('_'): type(cur)(sub)})
                        w = bytes(var.compose())
                        back = getattr(cls.parse_exact_size(w), f.name)
                    except Exception:  # pylint: disable=broad-except
                        continue        # combination the message does not allow (C01's business)
                    # a member whose value is 0 is no bit of the OR: it is not expected back
                    ev.append({'k': 'mflags', 'enum': '%s.%s' % (cls.__name__, f.name), 'ids': sorted(int(x) for x in sub if x),
                               'back': sorted(int(x) for x in back if x), 'toggled': m.name})
                    rep.case('mflags|%s|%s|%s' % (cls.__name__, f.name, sorted(int(x) for x in sub)))
    return ev


def mpint_events(rep, thorough):
    from cryptoparser.common.parse import ComposerBinary, ParserBinary
    rng = rep.rng
    ev = []
    vals = set()
    for k in range(1, 65 if thorough else 34):
        for bits in (8 * k - 1, 8 * k, 8 * k + 1):
            for v in (2 ** bits - 1, 2 ** bits, 2 ** bits + 1, 2 ** (bits - 1) if bits > 1 else 1):
                vals.add(v)
    vals |= set(range(0, 300)) | {2 ** 31, 2 ** 32 - 1, 2 ** 32, 2 ** 32 + 1, 2 ** 64 - 1, 2 ** 64, 4294967295}
    for bits in (512, 1024, 2048, 4095, 4096):
        vals |= {2 ** bits - 1, 2 ** (bits - 1), 2 ** (bits - 1) + 1}
        for _ in range(6 if thorough else 2):
            vals.add(rng.getrandbits(bits))
    for _ in range(400 if thorough else 80):
        vals.add(rng.getrandbits(rng.randint(1, 300)))
    for v in sorted(vals):
        for neg in (False, True):
            if neg and v == 0:
                continue
            x = -v if neg else v
            c = ComposerBinary()
            out, _ = call(lambda: c.compose_ssh_mpint(x))
            wire = bytes(c.composed_bytes)
            bneg, bmag = False, []
            if out == 'ok':
                p = ParserBinary(wire)
                o2, _ = call(lambda: p.parse_ssh_mpint('v'))
                if o2 == 'ok' and p.parsed_length == len(wire):
                    bneg, bmag = p['v'] < 0, digits(abs(p['v']))
                else:
                    bneg, bmag = (not neg), [0]
            ev.append({'k': 'sshmpint', 'neg': neg, 'mag': digits(v), 'wire': list(wire), 'out': out,
                       'back_neg': bneg, 'back_mag': bmag})
            if out == 'ok':
                ev.append(cursor_event('ssh_mpint', str(x)[:40], ParserBinary, lambda p: p.parse_ssh_mpint('v'), wire))
            rep.case('sshmpint|%d' % x)
        # fixed-length form: exact length, longer field, too short field
        n0 = max(1, (v.bit_length() + 7) // 8)
        for n in sorted({n0, n0 + 1, n0 + 3, max(1, n0 - 1), 4 * ((n0 + 3) // 4), max(1, n0 - 4)}):
            if n > 600:
                continue
            c = ComposerBinary()
            out, _ = call(lambda: c.compose_mpint(v, n))
            wire = bytes(c.composed_bytes)
            back = []
            if out == 'ok' and len(wire) == n:
                p = ParserBinary(wire)
                o2, _ = call(lambda: p.parse_mpint('v', n))
                back = digits(p['v']) if o2 == 'ok' else [0, 0]
            ev.append({'k': 'mpint', 'mag': digits(v), 'n': n, 'wire': list(wire), 'out': out, 'back': back})
            if out == 'ok' and len(wire) == n:
                ev.append(cursor_event('mpint', '%s|%d' % (str(v)[:40], n), ParserBinary, lambda p, n=n: p.parse_mpint('v', n), wire))
            rep.case('mpint|%d|%d' % (v, n))
    return ev


def ts_events(rep, thorough):
    from cryptoparser.common.parse import ComposerBinary, ParserBinary
    rng = rep.rng
    ev = []
    instants = [0, 1, 86399, 86400, 951782400, 1331430000, 1331433600, 1319932800, 1414285200, 1700000000,
                2 ** 31 - 1, 2 ** 31, 2 ** 32 - 2, 4102444800]
    # DST transition neighbourhoods and historic offset changes
    instants += [1301184000 + d for d in (-3600, -1, 0, 1, 3600)]      # 2011-03-27 Europe
    instants += [1319940000, 1414270800, 1175385600, 1197504000 - 1, 1197504000, 1325239200]
    instants += [rng.randrange(0, 2 ** 32 - 1) for _ in range(60 if thorough else 10)]
    step = 30 * 86400 * (1 if thorough else 12)
    instants += list(range(0, 2 ** 32 - 1, step))
    saved = os.environ.get('TZ')
    try:
        for tz in TZS if thorough else TZS[:10]:
            os.environ['TZ'] = tz
            time.tzset()
            for secs in instants:
                for w, ms, aware in ((8, False, True), (8, True, True), (4, False, True), (8, False, False), (8, True, False), (4, False, False)):
                    millis = (secs * 7) % 1000 if ms else 0
                    # what is below the resolution of the field (milliseconds in a seconds field, microseconds) is cut off
                    below = (0, 999, 1000, 999999)[(secs // 3) % 4] if ms is False else (0, 1, 999)[(secs // 3) % 3]
                    if aware:
                        dt = datetime.datetime.fromtimestamp(secs, datetime.timezone.utc) + datetime.timedelta(milliseconds=millis, microseconds=below)
                    else:
                        dt = datetime.datetime.utcfromtimestamp(secs) + datetime.timedelta(milliseconds=millis, microseconds=below)
                    c = ComposerBinary()
                    out, _ = call(lambda: c.compose_timestamp(dt, ms, w))
                    wire = bytes(c.composed_bytes)
                    bsecs, bmillis, bforever = [], 0, False
                    if out == 'ok' and len(wire) == w:
                        p = ParserBinary(wire)
                        o2, _ = call(lambda: p.parse_timestamp('t', ms, w))
                        if o2 == 'ok':
                            if p['t'] is None:
                                bforever = True
                            else:
                                bsecs = digits(calendar.timegm(p['t'].utctimetuple()))
                                bmillis = p['t'].microsecond // 1000
                    ev.append({'k': 'ts', 'tz': tz, 'forever': False, 'secs': digits(secs), 'millis': millis, 'w': w, 'ms': ms,
                               'aware': aware, 'wire': list(wire), 'out': out, 'back_secs': bsecs, 'back_millis': bmillis,
                               'back_forever': bforever})
                    if out == 'ok' and len(wire) == w and tz == TZS[0]:
                        ev.append(cursor_event('timestamp', '%d|%d|%s' % (secs, w, ms), ParserBinary,
                                               lambda p, ms=ms, w=w: p.parse_timestamp('v', ms, w), wire))
                    rep.case('ts|%s|%d|%d|%s|%s' % (tz, secs, w, ms, aware))
            # the same instants as aware datetimes in fixed-offset zones, west and east of Greenwich, whole and fractional hours
            for secs in (instants[:34] if tz in TZS[:2] else instants[:6]):
                for off in (-720, -300, -270, -30, 30, 345, 840):
                    for w, ms in ((8, False), (8, True), (4, False)):
                        millis = (secs * 7) % 1000 if ms else 0
                        dt = datetime.datetime.fromtimestamp(secs, datetime.timezone(datetime.timedelta(minutes=off))) + \
                            datetime.timedelta(milliseconds=millis)
                        c = ComposerBinary()
                        out, _ = call(lambda: c.compose_timestamp(dt, ms, w))
                        wire = bytes(c.composed_bytes)
                        bsecs, bmillis, bforever = [], 0, False
                        if out == 'ok' and len(wire) == w:
                            p = ParserBinary(wire)
                            o2, _ = call(lambda: p.parse_timestamp('t', ms, w))
                            if o2 == 'ok':
                                if p['t'] is None:
                                    bforever = True
                                else:
                                    bsecs = digits(calendar.timegm(p['t'].utctimetuple()))
                                    bmillis = p['t'].microsecond // 1000
                        ev.append({'k': 'ts', 'tz': '%s, value in UTC%+03d:%02d' % (tz, off // 60 if off >= 0 else -(-off // 60), abs(off) % 60),
                                   'forever': False, 'secs': digits(secs), 'millis': millis, 'w': w, 'ms': ms,
                                   'aware': True, 'wire': list(wire), 'out': out, 'back_secs': bsecs, 'back_millis': bmillis,
                                   'back_forever': bforever})
                        rep.case('ts|%s|%d|%d|%s|off%d' % (tz, secs, w, ms, off))
            for w, ms in ((4, False), (8, False), (4, True), (8, True)):
                c = ComposerBinary()
                out, _ = call(lambda: c.compose_timestamp(None, ms, w))
                wire = bytes(c.composed_bytes)
                p = ParserBinary(wire) if len(wire) == w else None
                bforever = False
                if p is not None:
                    call(lambda: p.parse_timestamp('t', ms, w))
                    bforever = p['t'] is None if 't' in p else False
                ev.append({'k': 'ts', 'tz': tz, 'forever': True, 'secs': [], 'millis': 0, 'w': w, 'ms': ms, 'aware': True,
                           'wire': list(wire), 'out': out, 'back_secs': [], 'back_millis': 0, 'back_forever': bforever})
                rep.case('ts|%s|forever|%d|%s' % (tz, w, ms))
    finally:
        if saved is None:
            os.environ.pop('TZ', None)
        else:
            os.environ['TZ'] = saved
        time.tzset()
    return ev


def run(rep):
    thorough = rep.tier == 'thorough'
    res = tlc.require_ok(tlc.run('MC_Prim', workers=4, timeout=1200), 'MC_Prim')
    rep.add_tlc(res, 'MC_Prim (reference primitives: round trip, refusal, minimality for 0..70000, both signs)')
    from . import c11_engine
    c11_engine.run_engine(rep, thorough)
    ev = int_events(rep, thorough) + flag_events(rep, thorough) + message_flag_events(rep, thorough) + mpint_events(rep, thorough) + ts_events(rep, thorough)
    kinds = {}
    for e in ev:
        kinds[e['k']] = kinds.get(e['k'], 0) + 1
    rep.extra['events_by_kind'] = kinds
    rep.exhaustive = False
    rep.extra['exhaustive_spaces'] = 'all 1- and 2-byte values in four byte orders' + (', all 3-byte values in network order, 1/16 of them in the other orders' if thorough else '')
    rep.rule = ('cases: every 1- and 2-byte value (3-byte: thorough tier; quick: boundary and sampled blocks) in four byte '
                'orders as blocks of 256; boundary, random and out-of-range values of widths 1,2,3,4,8; every flags enum with '
                'empty/single/full/random subsets and both shift halves; SSH and fixed-length mpints at bit lengths 8k-1, 8k, '
                '8k+1 up to 4096 bits, both signs; timestamps (4/8 bytes, s/ms, aware/naive, sentinel) for instants every '
                '%d days in 1970..2106 plus DST neighbourhoods under %d TZ settings. Distinct by arguments.'
                % (30 if thorough else 360, len(TZS) if thorough else 10))
    rep.sample([e for e in ev if e['k'] == 'cint'][5])
    rep.sample([e for e in ev if e['k'] == 'sshmpint'][40])
    rep.sample([e for e in ev if e['k'] == 'ts'][7])
    traces = [ev[i:i + 1500] for i in range(0, len(ev), 1500)]
    for tup, ti, ei, e in judge.run(rep, 'Trace_Prim', list(enumerate(traces)), 'prim', max_lines=6000):
        clause = tup[1]
        kind = e['k']
        if kind == 'ts':
            site = 'tz=%s|%s|%s' % (e['tz'], 'aware' if e['aware'] else 'naive', 'ms' if e['ms'] else 's')
            if e['out'] != 'ok':
                site = 'refused-%d-byte' % e['w']
        elif kind in ('cint', 'cneg', 'pint', 'cblock', 'pblock'):
            site = 'w=%d|order=%s' % (e['w'], e['order'])
        elif kind == 'flags':
            site = e['enum']
        elif kind == 'cursor':
            site = e['prim']
        elif kind == 'mflags':
            site = '%s|%s' % (e['enum'], e['toggled'])
        else:
            site = kind
        small = {k: (v if not isinstance(v, list) or len(v) < 40 else v[:40] + ['...']) for k, v in e.items()}
        rep.violation('%s|%s|%s' % (kind, clause, site), '%s: %s (%s)' % (kind, clause, site), small)
    rep.assumptions += ['native byte order "=" is little endian on this x86-64 image',
                        'instants outside 0..2^32-2 seconds are not generated for 4-byte timestamps']


def replay(rep, path):
    run(rep)
