"""Engine part of C11: the as-coded ComposerBinary model (MC) and primitive-level traces of the real composer."""
import enum

from .. import tlc, judge, objects, variants, composer_trace
from ..api import call

_TEMPS = {}


def drive(arg):
    qual, seed, limit = arg
    import random
    from .. import corpus
    cls = corpus.resolve(qual)
    rng = random.Random('cmp:%s:%s' % (seed, qual))
    pool = objects.vector_item_pool()
    temps = _TEMPS.get(cls, [])
    composer_trace.install()
    del composer_trace.EVENTS[:]
    composer_trace.LIMIT[0] = limit
    try:
        for obj in temps[:2]:
            call(lambda o: o.compose(), obj)
            for desc, var in variants.variants(obj, rng, pool, per_field=8, others=temps):
                call(lambda o: o.compose(), var)
                if len(composer_trace.EVENTS) >= limit:
                    break
    finally:
        composer_trace.uninstall()
    evs = list(composer_trace.EVENTS)
    for e in evs:
        e['cls'] = qual.replace('cryptoparser.', '')
    del composer_trace.EVENTS[:]
    return evs


def run_engine(rep, thorough):
    from ..par import pmap
    res = tlc.require_ok(tlc.run('MC_ComposerBinary', 'MC_ComposerBinary', workers=8, timeout=600, deadlock=False), 'MC_ComposerBinary')
    rep.add_tlc(res, 'MC_ComposerBinary (as-coded composer: atomic, only grows, exact widths, never truncates; programs of <= 3 primitives)')
    rejected = {}
    for cfg in ('wrap3', 'half'):
        r = tlc.run('MC_ComposerBinary', 'MC_ComposerBinary_' + cfg, workers=4, timeout=300, deadlock=False)
        if not r.invariant_violated:
            rep.machinery('MC_ComposerBinary_%s: the defect shape was NOT rejected' % cfg)
        rejected[cfg] = r.invariant_violated[0]
    rep.extra['composer_spec_mutants_rejected'] = rejected
    _TEMPS.clear()
    for cls, obj, wire in objects.templates():
        if not isinstance(obj, enum.Enum) and type(obj) is cls:
            _TEMPS.setdefault(cls, []).append(obj)
    objects.vector_item_pool()
    limit = 3000 if thorough else 600
    args = [(c.__module__ + '.' + c.__qualname__, rep.seed, limit) for c in sorted(_TEMPS, key=lambda c: c.__module__ + c.__qualname__)]
    events = []
    for evs in pmap(drive, args):
        events += evs
    names = {}
    for e in events:
        names[e['name']] = names.get(e['name'], 0) + 1
    rep.extra['composer_primitive_events'] = names
    rep.extra['composer_events_modelled'] = sum(1 for e in events if e['det'])
    rep.evaluations += len(events)
    rep.distinct.update('cprim|%s|%d' % (e['cls'], i) for i, e in enumerate(events[:5000]))
    if events:
        det = [e for e in events if e['det']]
        rep.sample({k: (det or events)[0][k] for k in ('cls', 'name', 'd', 'w', 'order', 'out', 'len0', 'len1', 'app')})
    slim = [{k: e[k] for k in ('name', 'det', 'order', 'd', 'ds', 'w', 'neg', 'body', 'blen', 'n', 'out', 'len0', 'len1', 'prefix_same', 'app', 'applen')}
            for e in events]
    traces = [slim[i:i + 6000] for i in range(0, len(slim), 6000)]
    for tup, ti, ei, _ in judge.run(rep, 'Trace_ComposerBinary', list(enumerate(traces)), 'composer', max_lines=30000):
        e = events[ti * 6000 + ei]
        rep.violation('composer:%s|%s|%s' % (e['name'], tup[1], e['cls']), 'primitive %s inside %s.compose(): %s (args d=%s w=%s order=%s, out %s, appended %s)' % (
            e['name'], e['cls'], tup[1], e['d'][:8], e['w'], e['order'], e['out'], e['app'][:12]), e)
