"""C12 - length-prefixed vectors stay within bounds through any edit sequence."""
import json
import os

import attr

from .. import tlc, corpus
from ..common import write_ndjson, digest

LEVEL = 'model_checking'
CAP = 2000000000   # TLC integers are 32 bit; larger protocol ceilings are never approached by the driver

OPS = ['insert', 'append', 'extend', 'iadd', 'pop', 'delitem', 'setitem', 'remove', 'delslice', 'setslice',
       'delxslice', 'setxslice', 'reverse', 'clear']
OPEN = 99          # PySeq!Open: an omitted slice bound


# ------------------------------------------------------------------ harness-side tiny vectors (for replay)
def tiny_classes():
    from cryptoparser.common.base import (Vector, Opaque, VectorParsable, VectorParamNumeric, OpaqueParam,
                                           VectorParamParsable)
    from cryptoparser.common.parse import ParsableBase, ParserBinary

    @attr.s(frozen=True)
    class TinyItem(ParsableBase):
        """a parsable item whose encoding is 1 or 2 bytes long: first byte < 0x80 -> 1 byte, else 2 bytes"""
        data = attr.ib()

        @classmethod
        def _parse(cls, parsable):
            parser = ParserBinary(parsable)
            parser.parse_numeric('first', 1)
            if parser['first'] >= 0x80:
                parser.parse_numeric('second', 1)
                return TinyItem(bytes([parser['first'], parser['second']])), 2
            return TinyItem(bytes([parser['first']])), 1

        def compose(self):
            return bytearray(self.data)

    class TinyFixed(Vector):
        @classmethod
        def get_param(cls):
            return VectorParamNumeric(item_size=1, min_byte_num=1, max_byte_num=3)

    class TinyOpaque(Opaque):
        @classmethod
        def get_param(cls):
            return OpaqueParam(min_byte_num=1, max_byte_num=3)

    class TinyVar(VectorParsable):
        @classmethod
        def get_param(cls):
            return VectorParamParsable(item_class=TinyItem, fallback_class=None, min_byte_num=1, max_byte_num=3)

    return {
        'TinyFixed': (TinyFixed, {1: 7, 2: 0}),            # ids 1,2 (size 1); id 3 (size 2) not available
        'TinyOpaque': (TinyOpaque, {1: 255, 2: 0}),
        'TinyVar': (TinyVar, {1: TinyItem(b'\x01'), 2: TinyItem(b'\x00'), 3: TinyItem(b'\x80\x00')}),
    }


# ------------------------------------------------------------------ observing a real vector
class Subject(object):
    def __init__(self, cls, pool, sizes, name=None):
        self.cls = cls
        self.pool = pool          # list of items; id = index + 1
        self.sizes = sizes        # reference body bytes per pool item (independent of get_item_size)
        self.param = cls.get_param()
        self.width = getattr(self.param, 'item_num_size', 0)
        self.sep = 1 if type(self.param).__name__ in ('VectorParamString', 'VectorParamSshLanguage',
                                                      'VectorParamNetorkAddress') else 0
        self.checkbody = type(self.param).__name__ != 'ListParamParsable'
        self.name = name or (cls.__module__ + '.' + cls.__qualname__)

    def ident(self, item):
        for i, p in enumerate(self.pool):
            if type(p) is type(item) and p == item:
                return [i + 1, self.sizes[i]]
        return [0, 0]

    def observe(self, vec):
        items = [self.ident(x) for x in list(vec)]
        try:
            b = bytes(vec.compose())
            body = len(b) - self.width
            prefix = int.from_bytes(b[:self.width], 'big') if self.width else body
            if prefix > CAP:
                prefix = -2
        except Exception:  # pylint: disable=broad-except
            body, prefix = -1, -1
        return items, int(vec._items_size), body, prefix   # pylint: disable=protected-access

    def begin_event(self, tid, vec):
        items = [self.ident(x) for x in list(vec)]
        if not getattr(self, 'width_checked', False):
            self.width_checked = True
            try:   # classes that strip the prefix on the wire (fixed-length random bytes) have no prefix to check
                total = sum(p[1] for p in items) + self.sep * max(len(items) - 1, 0)
                if self.checkbody and len(bytes(vec.compose())) == total:
                    self.width = 0
            except Exception:  # pylint: disable=broad-except
                pass
        return {'ev': 'begin', 'tid': tid, 'cls': self.name, 'minb': min(self.param.min_byte_num, CAP),
                'maxb': min(self.param.max_byte_num, CAP), 'sep': self.sep, 'width': self.width,
                'checkbody': self.checkbody, 'items': items}

    def item(self, pair):
        return self.pool[pair[0] - 1]

    def apply(self, vec, op):
        """op = [name, i, j, [id,size], [[id,size],..]] -> result string"""
        name, i, j, x, xs = op
        # the new items arrive as a list, a tuple, a one-shot iterator or a generator (a plain list takes them all alike)
        kind = (len(xs) + abs(i) + 2 * abs(j)) % 4

        def many():
            items = [self.item(p) for p in xs]
            return items if kind == 0 else tuple(items) if kind == 1 else iter(items) if kind == 2 else (y for y in items)
        try:
            if name == 'insert':
                vec.insert(i, self.item(x))
            elif name == 'append':
                vec.append(self.item(x))
            elif name == 'extend':
                vec.extend(many())
            elif name == 'iadd':
                vec += many()
            elif name == 'pop':
                vec.pop(i)
            elif name == 'delitem':
                del vec[i]
            elif name == 'setitem':
                vec[i] = self.item(x)
            elif name == 'remove':
                vec.remove(self.item(x))
            elif name == 'delslice':
                del vec[i:j]
            elif name == 'setslice':
                vec[i:j] = many()
            elif name == 'delxslice':
                del vec[slice(None if i == OPEN else i, None if j == OPEN else j, x[0])]
            elif name == 'setxslice':
                vec[slice(None if i == OPEN else i, None if j == OPEN else j, x[0])] = many()
            elif name == 'reverse':
                vec.reverse()
            elif name == 'clear':
                vec.clear()
            else:
                raise AssertionError(name)
        except Exception as e:  # pylint: disable=broad-except
            return type(e).__name__
        return 'ok'

    def op_event(self, tid, vec, op):
        shadow = list(vec)
        listres = self.apply(shadow, op)     # what a plain list does with the same edit
        res = self.apply(vec, op)
        items, tracked, body, prefix = self.observe(vec)
        return {'ev': 'op', 'tid': tid, 'op': op, 'res': res, 'listres': listres, 'items': items,
                'listitems': [self.ident(x) for x in shadow], 'tracked': min(tracked, CAP),
                'body': body, 'prefix': prefix}


def ref_size(cls, item, bases):
    """Body bytes the item contributes, measured on the real encoding (not via get_item_size)."""
    param = cls.get_param()
    width = getattr(param, 'item_num_size', 0)
    tname = type(param).__name__
    if tname in ('VectorParamNumeric',):
        return param.item_size
    if tname == 'OpaqueParam':
        return 1
    try:
        return len(bytes(cls([item]).compose())) - width - (4 if tname == 'ListParamParsable' else 0)
    except Exception:  # pylint: disable=broad-except
        pass
    for base in bases:
        try:
            a = len(bytes(cls(list(base) + [item]).compose()))
            b = len(bytes(cls(list(base)).compose()))
            return a - b
        except Exception:  # pylint: disable=broad-except
            continue
    return None


BIG = 30000


def big_items(cls):
    from cryptoparser.tls import subprotocol as S, extension as E
    name = cls.__name__
    try:
        if name == 'TlsDistinguishedNameVector':
            return [S.TlsDistinguishedName([65] * BIG)]
        if name == 'TlsCertificates':
            return [S.TlsCertificate(bytearray(b'\x30' * 6000000))]
        if name in ('TlsExtensionsClient', 'TlsExtensionsServer'):
            return [E.TlsExtensionUnparsed(E.TlsExtensionType.PADDING, bytearray(BIG))]
        if name == 'TlsCertificateStatusRequestResponderIdList':
            return [E.TlsCertificateStatusRequestResponderId([1] * BIG)]
        if name == 'TlsKeyShareEntryVector':
            from cryptodatahub.tls.algorithm import TlsNamedCurve
            return [E.TlsKeyShareEntry(TlsNamedCurve.X25519, bytearray(BIG))]
    except Exception:  # pylint: disable=broad-except
        return []
    return []


def subjects(rep):
    """One Subject per vector class of the library, pool taken from corpus objects and enum members."""
    from cryptoparser.common.base import ArrayBase
    lib = corpus.by_class()
    res = []
    skipped = {}
    for cls in corpus.concrete_parsables():
        if not issubclass(cls, ArrayBase):
            continue
        param = cls.get_param()
        tname = type(param).__name__
        pool = []
        bases = []
        for data in lib.get(cls, []):
            try:
                vec = cls.parse_exact_size(data)
            except Exception:  # pylint: disable=broad-except
                continue
            if not isinstance(vec, ArrayBase):
                continue   # OpaqueEnumParsable factories return enum members
            bases.append(list(vec))
            for it in vec:
                if not any(type(p) is type(it) and p == it for p in pool) and len(pool) < 6:
                    pool.append(it)
        if tname in ('VectorParamNumeric', 'OpaqueParam'):
            for v in (0, 1, 2 ** (8 * getattr(param, 'item_size', 1)) - 1):
                if v not in pool:
                    pool.append(v)
        item_class = getattr(param, 'item_class', None)
        enum_class = None
        if item_class is not None and hasattr(item_class, 'get_enum_class'):
            try:
                enum_class = item_class.get_enum_class()
            except Exception:  # pylint: disable=broad-except
                enum_class = None
        if enum_class is not None:
            members = list(enum_class)
            for m in members[:3] + members[-2:]:
                if m not in pool:
                    pool.append(m)
        for it in big_items(cls):
            pool.append(it)
        sizes = []
        good = []
        for it in pool:
            sz = ref_size(cls, it, bases)
            if sz is not None and sz >= 0:
                good.append(it)
                sizes.append(sz)
        if not good:
            skipped[cls.__name__] = 'no item could be built'
            continue
        subj = Subject(cls, good, sizes)
        subj.bases = bases
        res.append(subj)
    rep.extra['vector_classes'] = len(res)
    rep.extra['vector_classes_skipped'] = skipped
    return res


def start_vectors(subj, rng, n):
    """valid starting vectors: corpus contents, a minimal one, random ones, one close to the ceiling"""
    cls, param = subj.cls, subj.param
    out = []
    ids = {}
    for base in getattr(subj, 'bases', []):
        if all(subj.ident(x)[0] for x in base):
            out.append(list(base))
    order = sorted(range(len(subj.pool)), key=lambda k: subj.sizes[k])
    small = [k for k in order if subj.sizes[k] > 0] or order

    def fill(target, choose):
        items, total = [], 0
        while total < target and len(items) < 400:
            k = choose()
            if total + subj.sizes[k] > param.max_byte_num:
                k = small[0]
                if total + subj.sizes[k] > param.max_byte_num:
                    break
            items.append(subj.pool[k])
            total += subj.sizes[k]
        return items
    out.append(fill(param.min_byte_num, lambda: small[0]))
    if param.max_byte_num <= 400 * max(subj.sizes):
        big = order[-1]
        out.append(fill(param.max_byte_num, lambda: big))
        out.append(fill(param.max_byte_num - 1, lambda: rng.choice(order)))
    for _ in range(n):
        out.append(fill(rng.randint(param.min_byte_num, min(param.max_byte_num, param.min_byte_num + 40)),
                        lambda: rng.choice(order)))
    vecs = []
    for items in out:
        try:
            vecs.append(cls(list(items)))
        except Exception:  # pylint: disable=broad-except
            continue
    return vecs


def random_op(subj, vec, rng):
    n = len(vec)
    name = rng.choice(OPS)
    pick = lambda: [rng.randrange(len(subj.pool)) + 1, 0]   # noqa: E731

    def pair():
        k = rng.randrange(len(subj.pool))
        return [k + 1, subj.sizes[k]]
    i = rng.randint(-n - 2, n + 2)
    j = rng.randint(-n - 2, n + 2)
    xs = [pair() for _ in range(rng.choice([0, 1, 1, 2, 3, 5, 40]))]
    if name in ('insert', 'setitem'):
        return [name, i, 0, pair(), []]
    if name in ('append', 'remove'):
        x = pair()
        if name == 'remove' and n and rng.random() < 0.7:
            x = subj.ident(vec[rng.randrange(n)])
        return [name, 0, 0, x, []]
    if name in ('extend', 'iadd'):
        return [name, 0, 0, [0, 0], xs]
    if name in ('pop', 'delitem'):
        if rng.random() < 0.3:
            i = -1
        return [name, i, 0, [0, 0], []]
    if name == 'delslice':
        return [name, i, j, [0, 0], []]
    if name == 'setslice':
        return [name, i, j, [0, 0], xs]
    if name in ('delxslice', 'setxslice'):
        step = rng.choice([-1, -1, -2, 2, 3, -3])
        i = rng.choice([OPEN, OPEN, i])
        j = rng.choice([OPEN, OPEN, j])
        if name == 'delxslice':
            return [name, i, j, [step, 0], []]
        # mostly the right number of values (anything else is a ValueError before any change)
        cnt = len(range(*slice(None if i == OPEN else i, None if j == OPEN else j, step).indices(n)))
        if rng.random() < 0.8:
            xs = [pair() for _ in range(cnt)]
        return [name, i, j, [step, 0], xs]
    return [name, 0, 0, [0, 0], []]


def probe_ops(subj, vec):
    """history extension used when the tracked size drifted: walk to both bounds one item at a time"""
    order = sorted(range(len(subj.pool)), key=lambda k: subj.sizes[k])
    small = [k for k in order if subj.sizes[k] > 0]
    if not small:
        return []
    k = small[0]
    room = (subj.param.max_byte_num - subj.param.min_byte_num) // subj.sizes[k]
    if room > 300:
        # a wide range: jump close to the ceiling with ONE bulk edit (by the reference sizes), then walk over it item by item
        body = sum(subj.ident(x)[1] for x in vec)
        big = max(range(len(subj.pool)), key=lambda i: subj.sizes[i])
        n = (subj.param.max_byte_num - body) // subj.sizes[big] - 3
        if n < 1 or n > 7000 or subj.param.max_byte_num >= CAP:
            return None
        return [['extend', 0, 0, [0, 0], [[big + 1, subj.sizes[big]]] * n]] + \
               [['append', 0, 0, [big + 1, subj.sizes[big]], []] for _ in range(8)]
    ops = [['append', 0, 0, [k + 1, subj.sizes[k]], []] for _ in range(room + 3)]
    ops += [['pop', -1, 0, [0, 0], []] for _ in range(room + len(vec) + 3)]
    return ops


# ------------------------------------------------------------------ the check
def judge(rep, events, what):
    path = write_ndjson(os.path.join(rep.build, what + '.ndjson'), events)
    res = tlc.run('Trace_Vector', workers=1, env={'TRACE_FILE': path}, timeout=1800, tag=what)
    if not res.finished or res.errors:
        raise tlc.TlcError('Trace_Vector (%s) did not consume the trace:\n%s' % (what, res.out[-2500:]))
    rep.add_tlc(res, 'Trace_Vector ' + what)
    rep.trace_lines += len(events)
    out = []
    for tag in ('BAD', 'DEV', 'DRIFT'):
        for s in res.prints(tag):
            t, clause, line = tlc.parse_tla_tuple(s)
            out.append((t, clause, line))
    return out


def history_of(events, line):
    """the begin event and all op events of the trace that contains 1-based line"""
    tid = events[line - 1]['tid']
    hist = [e for e in events[:line] if e['tid'] == tid]
    return hist


def report(rep, events, verdicts, origin):
    for tag, clause, line in verdicts:
        ev = events[line - 1]
        hist = history_of(events, line)
        cls = hist[0]['cls']
        opname = ev['op'][0] if ev['ev'] == 'op' else 'begin'
        if tag == 'BAD':
            rep.violation('%s|%s|%s' % (cls.split('.')[-1], clause, opname),
                          '%s: clause %s fails after %s (history of %d edits, %s)' % (
                              cls, clause, opname, len(hist) - 1, origin),
                          {'origin': origin, 'class': cls, 'clause': clause, 'history': hist[-12:],
                           'history_length': len(hist)})
        elif tag == 'DEV':
            rep.deviation('%s|%s' % (cls.split('.')[-1], clause), 'NotEnoughData vs TooMuchData differs from the model')
        else:
            rep.deviation('%s|tracked-size-drift|%s' % (cls.split('.')[-1], opname),
                          '_items_size differs from the encoded size of the items (probe decides the verdict)')


def run_mc(rep, thorough):
    cfgs = ['MC_VectorImpl_var', 'MC_VectorImpl_fixed'] if thorough else ['MC_VectorImpl_var']
    for cfg in cfgs:
        res = tlc.run('MC_VectorImpl', cfg, workers=16, timeout=1500)
        rep.add_tlc(res, cfg + ' (as-coded vector refines the atomic intent; Sync; Bounded)')
        if res.invariant_violated or res.property_violated or 'Refines' in ' '.join(res.errors):
            beh = res.out[res.out.find('Error:'):][:3000]
            rep.violation('ArrayBase|model:%s|as-coded' % (res.invariant_violated or ['Refines'])[0],
                          'the as-coded model of ArrayBase violates the intent specification', {'tlc': beh})
        elif not res.ok:
            raise tlc.TlcError(cfg + ':\n' + res.out[-2000:])
    # specification-level mutants: the pre-fix code shapes must be rejected
    rejected = {}
    for cfg in ('MC_VectorImpl_preslice_fixed', 'MC_VectorImpl_preslice_var', 'MC_VectorImpl_prebulk_var'):
        res = tlc.run('MC_VectorImpl', cfg, workers=8, timeout=600)
        bad = res.invariant_violated or [e for e in res.errors if 'Refines' in e]
        if not bad:
            rep.machinery('%s: the pre-fix code shape was NOT rejected; the model lost its teeth' % cfg)
        rejected[cfg] = bad[0]
    rep.extra['spec_mutants_rejected'] = rejected


def run_replay(rep, thorough):
    """specification -> code: chain TLC-generated transitions into behaviours, replay on real (tiny-bound) vectors"""
    out = os.path.join(rep.build, 'gen_vector.ndjson')
    res = tlc.require_ok(tlc.run('Gen_Vector', workers=1, env={'OUT_FILE': out}, timeout=600), 'Gen_Vector')
    rep.add_tlc(res, 'Gen_Vector (transition enumeration)')
    cases = [json.loads(l) for l in open(out)]
    by_state = {}
    for c in cases:
        by_state.setdefault(json.dumps(c['s']), []).append(c)
    rng = rep.rng
    tiny = tiny_classes()
    events = []
    expected = {}
    tid = 0
    steps = 0
    for name, (cls, idmap) in sorted(tiny.items()):
        pool_ids = sorted(idmap)
        subj = Subject(cls, [idmap[k] for k in pool_ids], [1 if k < 3 else 2 for k in pool_ids], name='harness.' + name)
        usable = lambda c: all(p[0] in idmap for p in c['s'] + c['post'] + c['op'][4]) and \
            (c['op'][0] in ('delxslice', 'setxslice') or c['op'][3][0] in idmap or c['op'][3][0] == 0)   # noqa: E731
        todo = {}
        for key, lst in by_state.items():
            ok = [c for c in lst if usable(c)]
            if ok and all(p[0] in idmap for p in json.loads(key)):
                todo[key] = ok
        covered = set()
        total = sum(len(v) for v in todo.values())
        passes = 2 if thorough else 1
        for _ in range(passes):
            remaining = {k: list(v) for k, v in todo.items()}
            for v in remaining.values():
                rng.shuffle(v)
            while any(remaining.values()):
                key = rng.choice([k for k, v in remaining.items() if v])
                tid += 1
                vec = cls([subj.item(p) for p in json.loads(key)])
                events.append(subj.begin_event(tid, vec))
                for _step in range(40):
                    if remaining.get(key):
                        c = remaining[key].pop()
                    elif key in todo:
                        c = rng.choice(todo[key])
                    else:
                        break
                    ev = subj.op_event(tid, vec, c['op'])
                    events.append(ev)
                    steps += 1
                    # plain equality with the value TLC computed (specification -> code)
                    if ev['items'] != c['post'] or (ev['res'] != c['res']):
                        expected[len(events)] = c
                    rep.case('%s|%s|%s' % (name, key, json.dumps(c['op'])))
                    key = json.dumps(ev['items'])
    rep.extra['replayed_transitions'] = steps
    rep.sample({'replay': events[0], 'then': events[1]})
    verdicts = judge(rep, events, 'replay')
    rep.traces += tid
    report(rep, events, verdicts, 'replay of TLC-generated transitions')
    # direct comparison with the generated expectation (same verdict, kept as cross-check of the judge)
    flagged = {line for tag, _, line in verdicts if tag == 'BAD'}
    for line, c in expected.items():
        if line not in flagged and not ({events[line - 1]['res'], c['res']} <= {'NotEnoughData', 'TooMuchData'}):
            rep.machinery('replay mismatch at line %d not flagged by Trace_Vector: %r vs %r' % (line, events[line - 1], c))


def run_traces(rep, thorough):
    rng = rep.rng
    subs = subjects(rep)
    events = []
    tid = 0
    hist_len = 30 if thorough else 18
    per_class = 12 if thorough else 4
    heavy = set()
    for subj in subs:
        for vec in start_vectors(subj, rng, per_class):
            tid += 1
            events.append(subj.begin_event(tid, vec))
            drifted = False
            for _ in range(hist_len):
                op = random_op(subj, vec, rng)
                ev = subj.op_event(tid, vec, op)
                events.append(ev)
                rep.case('%s|%s|%s' % (subj.name, digest(ev['items']), json.dumps(op)[:80]))
                if ev['tracked'] != sum(p[1] for p in ev['items']) and not drifted:
                    drifted = True
                    probe = probe_ops(subj, vec)
                    if probe and probe[0][0] == 'extend':
                        # a bulk probe puts thousands of items into every following trace line: one per class, three per run
                        if subj.name in heavy or len(heavy) >= 3:
                            probe = None
                        else:
                            heavy.add(subj.name)
                    for pop in probe or []:
                        events.append(subj.op_event(tid, vec, pop))
                    break
    rep.sample({'trace_begin': events[0], 'first_op': events[1]})
    verdicts = judge(rep, events, 'traces')
    rep.traces += tid
    report(rep, events, verdicts, 'random edit history on a library vector')


def run(rep):
    thorough = rep.tier == 'thorough'
    rep.rule = ('a case is one edit applied to a real vector in a given content (distinct by class, content digest, '
                'operation and arguments); non-trivial: every edit is (the model decides accept/refuse for each). '
                'Replay: every transition of the intent model over 3 items / bounds 1..3 chained into behaviours on '
                'harness-defined subclasses of Vector/Opaque/VectorParsable with those bounds. Traces: random edit '
                'histories (length %d) on every vector class of the library from corpus/minimal/near-ceiling contents.'
                % (30 if thorough else 18))
    run_mc(rep, thorough)
    run_replay(rep, thorough)
    run_traces(rep, thorough)
    rep.assumptions += [
        'reference item sizes are measured on real compose() output of one-item vectors (numeric/opaque: the declared width)',
        'protocol ceilings above 2e9 are capped in the trace (never approached)',
        'the Tiny* replay subjects are harness-defined subclasses of the library containers (same ArrayBase code)']


def replay(rep, path):
    with open(path) as f:
        data = json.load(f)
    print(json.dumps(data['case'], indent=1)[:4000])
    run(rep)
