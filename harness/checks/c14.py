"""C14 - JSON and Markdown output is always well-formed, deterministic and faithful."""
import json
import os
import subprocess
import sys
from concurrent.futures import ThreadPoolExecutor

from .. import tlc, judge
from ..common import write_ndjson

LEVEL = 'model_checking'
ENVS = [(0, 'forward', '0'), (1, 'reverse', '1'), (2, 'shuffle', '2'), (3, 'shuffle', '3'), (4, 'forward', '12345')]


def run_env(args):
    env, order, hashseed, thorough, out = args
    e = dict(os.environ, PYTHONHASHSEED=hashseed, PYTHONPATH=tlc.VERIF)
    p = subprocess.run([sys.executable, '-m', 'harness.ser_worker', str(env), order, '1' if thorough else '0', out], cwd=tlc.VERIF, env=e,
                       stdout=subprocess.PIPE, stderr=subprocess.STDOUT, universal_newlines=True, timeout=1800)
    if p.returncode != 0 or not os.path.exists(out):
        raise tlc.TlcError('serialisation worker %s failed:\n%s' % (env, p.stdout[-2000:]))
    return json.load(open(out))


def run(rep):
    thorough = rep.tier == 'thorough'
    res = tlc.require_ok(tlc.run('MC_Serialize', 'MC_Serialize_intent', workers=4, timeout=600, coverage=True), 'MC_Serialize_intent')
    rep.add_tlc(res, 'MC_Serialize_intent (Deterministic over all histories, restarts and set orders)')
    rejected = {}
    for cfg in ('cache', 'sets', 'pin'):
        r = tlc.run('MC_Serialize', 'MC_Serialize_' + cfg, workers=2, timeout=300)
        if not r.invariant_violated:
            rep.machinery('MC_Serialize_%s: the defect shape was NOT rejected' % cfg)
        rejected[cfg] = r.invariant_violated[0]
    rep.extra['spec_mutants_rejected'] = rejected
    envs = ENVS if thorough else ENVS[:4]
    jobs = [(env, order, hs, thorough, os.path.join(rep.build, 'env%d.json' % env)) for env, order, hs in envs]
    with ThreadPoolExecutor(len(jobs)) as ex:
        results = list(ex.map(run_env, jobs))
    nobj = results[0]['nobj']
    if any(r['nobj'] != nobj for r in results):
        rep.machinery('object lists differ between environments: %s' % [r['nobj'] for r in results])
    events = [{'ev': 'begin', 'nobj': nobj}]
    docs = []
    for r in results:
        for rec in r['recs']:
            doc = rec.pop('doc', None)
            if rec['env'] == 0 and doc is not None:
                docs.append((rec['oid'], doc))
            events.append(rec)
            rep.case('%s|%d|%d' % (rec['cls'], rec['oid'], rec['env']))
    rep.extra['objects'] = nobj
    rep.extra['environments'] = [{'env': e, 'order': o, 'PYTHONHASHSEED': h} for e, o, h in envs]
    # well-formedness is decided by json.loads in the worker: the Json module of TLC's CommunityModules rejects the JSON
    # value null ("unsupported JSON value null"), so it cannot serve as the standard parser here (see DESIGN.md)
    rep.extra['json_documents_checked_by_json_loads'] = sum(1 for e in events[1:] if e['json_ok'])
    rep.rule = ('objects: corpus objects of every class (non-Serializable values inside a Serializable result object) and field '
                'variations; each is serialised twice as JSON and Markdown in %d fresh processes that differ in PYTHONHASHSEED and in '
                'the order of serialisation, and once more after a compose/parse round trip; a case is one (object, environment).'
                % len(envs))
    rep.sample(events[1])
    rep.sample({'json_document': docs[0][1][:300]} if docs else {'none': 0})
    cls_of = {}
    for tup, ti, ei, e in judge.run(rep, 'Trace_Serialize', [(0, events)], 'ser', nshards=1, max_lines=10 ** 9):
        clause = tup[1]
        rep.violation('%s|%s|%s' % (e['cls'], clause, 'serialise'), '%s: %s (object %d, environment %d)' % (e['cls'], clause, e['oid'], e['env']),
                      {k: v for k, v in e.items()})
    rep.assumptions += ['the object list is rebuilt identically in every process (corpus order, fixed generator seed)',
                        'faithfulness of the rendering (that it means the right thing) is not decided; well-formedness, totality, '
                        'determinism and stability under round trip are']


def replay(rep, path):
    run(rep)
