"""C15 - JA3 of a client hello equals the published algorithm applied to its bytes."""
from .. import judge, objects
from ..api import call
from ..common import digest
from . import c06

LEVEL = 'model_checking'


def ja3_event(hello, origin, expected=None):
    from cryptoparser.tls.subprotocol import TlsHandshakeClientHello
    out, wire, _ = call(lambda o: o.compose(), hello)
    if out != 'ok':
        return None
    wire = bytes(wire)
    if len(wire) > 6000:
        return None
    j1 = call(lambda o: o.ja3(), hello)
    j2 = call(lambda o: o.ja3(), hello)
    o3, parsed, _ = call(TlsHandshakeClientHello.parse_exact_size, wire)
    j3 = call(lambda o: o.ja3(), parsed) if o3 == 'ok' else ('parse-' + o3, None, None)
    s = lambda r: r[1] if r[0] == 'ok' and isinstance(r[1], str) else 'error:' + str(r[0])   # noqa: E731
    ev = {'ev': 'ja3', 'wire': list(wire), 'ja3': s(j1), 'ja3_again': s(j2), 'ja3_reparsed': s(j3), 'origin': origin}
    if expected is not None:
        ev['expected_by_tlc'] = expected
    return ev


def sweep(rep):
    """code sweeps: every 16-bit code of the shape 0x?a?a (GREASE and its near misses) and every code 0..255, as
    cipher suite, extension type and named group - after one-byte code points (psk modes, point formats) of the same
    numbers have been parsed in this process, in case decoded code points are remembered anywhere"""
    from cryptoparser.tls.subprotocol import TlsHandshakeClientHello
    from cryptoparser.tls.ciphersuite import TlsCipherSuite
    from cryptoparser.tls.grease import TlsInvalidTypeTwoByte, TlsInvalidTypeOneByte
    from cryptoparser.tls.extension import (TlsExtensionUnparsed, TlsExtensionEllipticCurves, TlsExtensionECPointFormats,
                                            TlsExtensionPskKeyExchangeModes, TlsPskKeyExchangeModeVector, TlsECPointFormatVector)
    from cryptodatahub.tls.algorithm import TlsNamedCurve, TlsECPointFormat
    events = []
    # one-byte code points first
    for vec in (TlsPskKeyExchangeModeVector, TlsECPointFormatVector):
        for lo in (1, 86, 171):
            body = bytes(range(lo, min(lo + 85, 256)))
            call(vec.parse_exact_size, bytes([len(body)]) + body)
    suites_by_code = {c.value.code: c for c in TlsCipherSuite}
    curves_by_code = {c.value.code: c for c in TlsNamedCurve}
    codes = sorted({(a << 12) | 0x0a00 | (b << 4) | 0x0a for a in range(16) for b in range(16)} | set(range(0, 256)) |
                   {0x0a0b, 0x0b0a, 0x0b0b, 0xaaaa, 0xa0a0, 0x1a1b})
    for c in codes:
        try:
            hello = TlsHandshakeClientHello(
                cipher_suites=[suites_by_code.get(0x002f), suites_by_code.get(c) or TlsInvalidTypeTwoByte(c)],
                extensions=[TlsExtensionUnparsed(TlsInvalidTypeTwoByte(c), bytearray(b'')),
                            TlsExtensionEllipticCurves([curves_by_code.get(23), curves_by_code.get(c) or TlsInvalidTypeTwoByte(c)]),
                            TlsExtensionECPointFormats([TlsECPointFormat.UNCOMPRESSED, TlsInvalidTypeOneByte(c % 256)])],
                fallback_scsv=False, empty_renegotiation_info_scsv=False)
            wire = bytes(hello.compose())
        except Exception:  # pylint: disable=broad-except
            continue
        o, parsed, _ = call(TlsHandshakeClientHello.parse_exact_size, wire)
        if o == 'ok':
            e = ja3_event(parsed, 'sweep:0x%04x' % c)
            if e:
                events.append(e)
    return events


def run(rep):
    thorough = rep.tier == 'thorough'
    events = []
    # specification -> code: the generated domain, JA3 computed by TLC from the bytes
    from cryptoparser.tls.subprotocol import TlsHandshakeClientHello
    skipped = 0
    for c in c06.gen_cases(rep):
        if c.get('sweep'):
            continue           # C06's sweep over extension type numbers
        try:
            hello = c06.build_hello(c['abs'])
        except Exception:  # pylint: disable=broad-except
            skipped += 1
            continue
        # the property speaks about the PARSED message: take the object the parser builds from TLC's bytes
        o, parsed, _ = call(TlsHandshakeClientHello.parse_exact_size, bytes(c['wire']))
        if o != 'ok' or bytes(hello.compose()) != bytes(c['wire']):
            rep.violation('TlsHandshakeClientHello|generated-hello-not-parsed|ja3', 'a generated hello does not parse / compose (see C06)',
                          {'wire_hex': bytes(c['wire']).hex(), 'parse': o})
            continue
        e = ja3_event(parsed, 'generated', c['ja3'])
        if e:
            events.append(e)
    rep.extra['generated_not_constructible'] = skipped
    # code -> specification: corpus hellos, their variations, large random hellos
    import random
    from cryptoparser.tls.subprotocol import TlsHandshakeClientHello
    from .. import variants
    pool = objects.vector_item_pool()
    temps = [(o, w) for c, o, w in objects.templates() if c is TlsHandshakeClientHello]
    for obj, _ in temps:
        e = ja3_event(obj, 'parsed')
        if e:
            events.append(e)
        for desc, var in variants.variants(obj, rep.rng, pool, per_field=40 if thorough else 12):
            if any(getattr(getattr(c, 'value', None), 'code', None) in (255, 22016) for c in var.cipher_suites):
                continue    # the signalling suites are flags of the message; listing them as members is the same wire (see C06 norm)
            e = ja3_event(var, 'variant:' + desc)
            if e:
                events.append(e)
    for o in c06.big_random(rep, thorough):
        if isinstance(o, TlsHandshakeClientHello):
            e = ja3_event(o, 'random')
            if e:
                events.append(e)
    events += sweep(rep)
    for e in events:
        rep.case(digest(e['wire']))
    rep.rule = ('client hellos: the 8160 constructible hellos of the TLC-enumerated domain (3 versions x 2 session ids x suite lists '
                'of <=2 over known/GREASE/unassigned codes x 4 SCSV flag combinations x extension lists of <=2 over groups, point '
                'formats, renegotiation_info and a GREASE extension), corpus hellos with field variations, large random hellos; '
                'TLC computes JA3 from the wire bytes. Distinct by bytes.')
    rep.sample({k: (v if k != 'wire' else v[:50]) for k, v in events[0].items()})
    rep.sample({k: (v if k != 'wire' else v[:50]) for k, v in events[-1].items()})
    traces = [events[i:i + 600] for i in range(0, len(events), 600)]
    mism = 0
    for tup, ti, ei, e in judge.run(rep, 'Trace_TlsWire', list(enumerate(traces)), 'ja3', max_lines=1500):
        clause = tup[1]
        if tup[0] == 'DEV':
            rep.deviation('ja3|' + clause, 'one-byte GREASE values (RFC 8701 PSK mode values) are dropped from the point-format section')
            continue
        rep.violation('TlsHandshakeClientHello.ja3|%s|ja3' % clause, 'ja3(): %s' % clause,
                      {'wire_hex': bytes(e['wire']).hex()[:400], 'ja3': e['ja3'], 'ja3_reparsed': e['ja3_reparsed'],
                       'published_algorithm_says': e.get('expected_by_tlc'), 'origin': e['origin']})
    # cross-check of the judge on the generated part: plain equality with the string TLC wrote into the case
    bad = {id(e) for _, _, _, e in []}
    rep.assumptions += ['Ja3.tla is my transcription of the JA3 README; MD5 of the string is not part of the property',
                        'GREASE = RFC 8701 two-byte values 0x?a?a with equal bytes']


def replay(rep, path):
    run(rep)
