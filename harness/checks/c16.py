"""C16 - HASSH and SSH host-key fingerprints equal their definitions over wire bytes."""
import base64
import enum
import hashlib

from .. import judge, objects, variants, wire_ssh
from ..api import call
from ..common import digest
from . import c07

LEVEL = 'model_checking'


def hassh_event(kex, origin):
    from cryptoparser.ssh.subprotocol import SshKeyExchangeInit
    out, wire, _ = call(lambda o: o.compose(), kex)
    if out != 'ok' or len(bytes(wire)) > 5000:
        return None
    wire = bytes(wire)
    a = wire_ssh.message_abs(kex)[1]
    if len(a['cookie']) != 16:
        return None

    def pre(keys):
        return b';'.join(b','.join(bytes(n) for n in a[k]) for k in keys)
    pc = pre(['kex', 'enc_c2s', 'mac_c2s', 'comp_c2s'])
    ps = pre(['kex', 'enc_s2c', 'mac_s2c', 'comp_s2c'])
    h1 = call(lambda o: o.hassh, kex)
    h2 = call(lambda o: o.hassh_server, kex)
    o3, parsed, _ = call(SshKeyExchangeInit.parse_exact_size, wire)
    stable = o3 == 'ok' and call(lambda o: o.hassh, parsed)[1] == h1[1] and call(lambda o: o.hassh_server, parsed)[1] == h2[1]
    return {'ev': 'hassh', 'wire': list(wire), 'pre_client': list(pc), 'pre_server': list(ps),
            'md5_client_ok': h1[0] == 'ok' and h1[1] == hashlib.md5(pc).hexdigest(),
            'md5_server_ok': h2[0] == 'ok' and h2[1] == hashlib.md5(ps).hexdigest(), 'stable': bool(stable), 'origin': origin,
            'hassh': str(h1[1]), 'hassh_server': str(h2[1])}


def fp_event(key, origin):
    try:
        ab = wire_ssh.cert_abs(key) if type(key).__name__.startswith('SshHostCertificate') else wire_ssh.key_abs(key)
    except Exception as e:  # pylint: disable=broad-except
        # reading the fields of a key the library itself built or parsed (its own blob, the blob of its signature key) failed
        return {'ev': 'fpfail', 'error': type(e).__name__, 'origin': origin, 'cls': type(key).__name__, 'kind': 'none'}
    if ab is None:
        return None
    kind, a = ab
    kb = call(lambda o: o.key_bytes, key)
    if kb[0] != 'ok':
        return None
    blob = bytes(kb[1])
    if len(blob) > 3000:
        return None
    fps = call(lambda o: o.fingerprints, key)
    d = call(lambda o: o.host_key_asdict(), key)
    ok256 = ok1 = okmd5 = okkh = False
    if fps[0] == 'ok':
        by = {getattr(k, 'name', str(k)): v for k, v in fps[1].items()}
        ok256 = by.get('SHA2_256') == 'SHA256:' + base64.b64encode(hashlib.sha256(blob).digest()).decode()
        ok1 = by.get('SHA1') == 'SHA1:' + base64.b64encode(hashlib.sha1(blob).digest()).decode()
        hx = hashlib.md5(blob).hexdigest()
        okmd5 = by.get('MD5') == 'MD5:' + ':'.join(hx[i:i + 2] for i in range(0, 32, 2))
    if d[0] == 'ok':
        okkh = d[1].get('known_hosts') == base64.b64encode(blob).decode()
    # the blob as a peer would receive it: parsed again, the fingerprint is still the digest of these bytes
    reparsed_ok = True
    o2, res, _ = call(type(key).parse_exact_size, blob)
    if o2 == 'ok' and hasattr(res, 'fingerprints'):
        f2 = call(lambda k: k.fingerprints, res)
        by2 = {getattr(k, 'name', str(k)): v for k, v in f2[1].items()} if f2[0] == 'ok' else {}
        reparsed_ok = by2.get('SHA2_256') == 'SHA256:' + base64.b64encode(hashlib.sha256(blob).digest()).decode()
    return {'ev': 'fp', 'kind': kind, 'abs': a, 'key_bytes': list(blob), 'sha256_ok': ok256, 'sha1_ok': ok1, 'md5_ok': okmd5,
            'known_hosts_ok': okkh, 'reparsed_ok': bool(reparsed_ok), 'parse': o2, 'origin': origin, 'cls': type(key).__name__}


def wire_fp_events(rep, thorough):
    """host keys and certificates AS RECEIVED: corpus blobs and accepted mutants of them; the fingerprints reported for the
    parsed key are the digests of the blob that was on the wire (what ssh-keygen -l prints for it)"""
    from ..mutate import mutants
    from .. import corpus
    ev = []
    lib = corpus.by_class()
    for cls in sorted(lib, key=lambda c: c.__module__ + c.__qualname__):
        if not (isinstance(cls, type) and cls.__module__.endswith('ssh.key') and cls.__name__.startswith(('SshHostKey', 'SshHostCertificateV0'))):
            continue
        for sd in lib[cls][:2]:
            for data in [sd] + mutants(sd, rep.rng, 60 if thorough else 25):
                if len(data) > 3000:
                    continue
                o, res, _ = call(cls.parse_exact_size, data)
                if o != 'ok' or not hasattr(res, 'fingerprints'):
                    continue
                fps = call(lambda k: k.fingerprints, res)
                if fps[0] != 'ok':
                    continue
                by = {getattr(k, 'name', str(k)): v for k, v in fps[1].items()}
                ok = by.get('SHA2_256') == 'SHA256:' + base64.b64encode(hashlib.sha256(data).digest()).decode()
                ev.append({'ev': 'wirefp', 'cls': cls.__name__, 'ok': bool(ok), 'mutated': data is not sd, 'hex': data.hex()[:400]})
                rep.case('wirefp|' + digest(list(data)))
    # certificates as another implementation may issue them: an option or extension under a known name that carries data the
    # library's class for that name does not expect (a flag with a value), built through the library's own generic option class.
    # If such a certificate is accepted, the fingerprint is still that of the blob received.
    import attr
    from cryptoparser.ssh import key as K
    for cls in sorted(lib, key=lambda c: c.__module__ + c.__qualname__):
        if not (isinstance(cls, type) and cls.__module__.endswith('ssh.key') and cls.__name__.startswith('SshHostCertificateV0')):
            continue
        for sd in lib[cls][:1]:
            o, cert, _ = call(cls.parse_exact_size, sd)
            if o != 'ok':
                continue
            for field in ('extensions', 'critical_options', 'constraints'):
                if not hasattr(cert, field):
                    continue
                for name in [m.value.code for m in K.SshCertExtensionName][:12]:
                    for payload in (b'yes', b'\x00\x00\x00\x00', b'\x00\x00\x00\x01a'):
                        o1, var, _ = call(lambda c, f=field, n=name, d=payload: attr.evolve(c, **{f: [K.SshCertExtensionUnparsed(n, bytearray(d))]}), cert)
                        o2, blob, _ = call(lambda v: bytes(v.key_bytes), var) if o1 == 'ok' else ('-', b'', None)
                        if o2 != 'ok':
                            continue
                        o3, res, _ = call(cls.parse_exact_size, blob)
                        if o3 != 'ok' or not hasattr(res, 'fingerprints'):
                            continue
                        fps = call(lambda k: k.fingerprints, res)
                        by = {getattr(k, 'name', str(k)): v for k, v in fps[1].items()} if fps[0] == 'ok' else {}
                        ok = by.get('SHA2_256') == 'SHA256:' + base64.b64encode(hashlib.sha256(blob).digest()).decode()
                        ev.append({'ev': 'wirefp', 'cls': cls.__name__, 'ok': bool(ok), 'mutated': False, 'hex': blob.hex()[:400],
                                   'option': '%s=%r in %s' % (name, payload, field)})
                        rep.case('wirefp|' + digest(list(blob)))
    return ev


def run(rep):
    thorough = rep.tier == 'thorough'
    rng = rep.rng
    pool = objects.vector_item_pool()
    events = []
    from cryptoparser.ssh.subprotocol import SshKeyExchangeInit
    for cls, obj, wire in objects.templates():
        if isinstance(obj, enum.Enum) or type(obj) is not cls or not cls.__module__.startswith('cryptoparser.ssh.'):
            continue
        if isinstance(obj, SshKeyExchangeInit):
            e = hassh_event(obj, 'parsed')
            if e:
                events.append(e)
            for desc, var in variants.variants(obj, rng, pool, per_field=12):
                e = hassh_event(var, 'variant:' + desc)
                if e:
                    events.append(e)
        elif cls.__name__.startswith(('SshHostKey', 'SshHostCertificateV0')) and hasattr(obj, 'public_key'):
            e = fp_event(obj, 'parsed')
            if e:
                events.append(e)
            if cls.__name__.startswith('SshHostCertificateV0'):
                # renewed certificates: same subject key, other serial / key id / validity / principals
                for desc, var in variants.variants(obj, rng, pool, per_field=4):
                    e = fp_event(var, 'variant:' + desc)
                    if e:
                        events.append(e)
    for k in c07.make_kexinits(rng, True):
        e = hassh_event(k, 'generated')
        if e:
            events.append(e)
    # all four name-lists empty, single lists empty
    try:
        events.append(hassh_event(SshKeyExchangeInit([], [], [], [], [], [], [], []), 'generated:all-empty'))
    except Exception:  # pylint: disable=broad-except
        pass
    for k in c07.make_keys(rng, thorough):
        e = fp_event(k, 'generated')
        if e:
            events.append(e)
    events += wire_fp_events(rep, thorough)
    events = [e for e in events if e]
    for e in events:
        if e['ev'] not in ('wirefp', 'fpfail'):
            rep.case(digest(e.get('wire') or e.get('key_bytes')))
    rep.extra['kexinit_cases'] = sum(1 for e in events if e['ev'] == 'hassh')
    rep.extra['key_cases'] = sum(1 for e in events if e['ev'] == 'fp')
    rep.rule = ('KEXINITs: corpus, field variations and random ordered lists of known and unknown names (empty lists included); TLC '
                'extracts name-lists 1,3,5,7 / 1,4,6,8 from the WIRE bytes and joins them with ";" - the harness applies hashlib.md5 '
                'to that preimage. Keys: corpus keys and RSA/DSS/Ed25519 keys at boundary bit lengths; TLC rebuilds the RFC 4253 blob '
                'from the key parameters, hashlib/base64 give the digests. Distinct by bytes.')
    rep.sample({k: (v if not isinstance(v, list) else v[:30]) for k, v in events[0].items()})
    fp = [e for e in events if e['ev'] == 'fp']
    if fp:
        rep.sample({k: (v if not isinstance(v, list) else v[:30]) for k, v in fp[0].items() if k != 'abs'})
    traces = [events[i:i + 300] for i in range(0, len(events), 300)]
    for tup, ti, ei, e in judge.run(rep, 'Trace_SshWire', list(enumerate(traces)), 'hassh', max_lines=1500):
        clause = tup[1]
        if e['ev'] == 'wirefp' and tup[0] == 'DEV':
            rep.deviation('%s|%s|received-blob' % (e['cls'], clause),
                          'an accepted key blob in a non-canonical spelling: the fingerprint is that of the re-encoded key, not of the bytes received')
        elif e['ev'] == 'wirefp':
            rep.violation('%s|%s|%s' % (e['cls'], clause, 'received-blob'), '%s: %s (blob %s...)' % (e['cls'], clause, e['hex'][:60]), e)
        elif e['ev'] == 'hassh':
            rep.violation('SshKeyExchangeInit|%s|hassh' % clause, 'KEXINIT: %s [%s]' % (clause, e['origin']),
                          {'wire_hex': bytes(e['wire']).hex()[:800], 'hassh': e['hassh'], 'hassh_server': e['hassh_server'],
                           'preimage_client': bytes(e['pre_client']).decode('latin-1')})
        elif e['ev'] == 'fpfail':
            rep.violation('%s|%s|%s' % (e['cls'], clause, e['error']), '%s: %s (%s) [%s]' % (e['cls'], clause, e['error'], e['origin']), e)
        else:
            site = 'fingerprints'
            if e['kind'].startswith('cert_') and clause == 'key-blob-is-not-rfc4253-encoding' and \
                    any(o['k'] == 'string' for o in e['abs']['options'] + e['abs']['extensions']):
                site = 'string-valued-option'         # C07's finding about the option data, seen through the blob
            rep.violation('%s|%s|%s' % (e['cls'], clause, site), '%s: %s [%s]' % (e['cls'], clause, e['origin']),
                          {'kind': e['kind'], 'abs': e['abs'], 'key_bytes_hex': bytes(e['key_bytes']).hex()[:600]})
    rep.assumptions += ['hashlib (MD5, SHA-1, SHA-256) and base64 are trusted; the rendering rules are applied by the harness',
                        'certificates: fingerprints are checked for plain host keys only']


def replay(rep, path):
    run(rep)
