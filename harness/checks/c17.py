"""C17 - TLS protocol versions form a strict total order consistent with equality."""
import itertools
import json
import os

from .. import tlc
from ..common import write_ndjson

LEVEL = 'model_checking'


def _matrix():
    from cryptodatahub.tls.version import TlsVersion
    from cryptoparser.tls.version import TlsProtocolVersion
    members = list(TlsVersion)
    objs = [TlsProtocolVersion(m) for m in members]
    # a second, independently constructed object per version: == and hash must not depend on identity
    objs2 = [TlsProtocolVersion(m) for m in members]
    n = len(objs)

    def mat(f):
        return [[bool(f(objs[i], objs2[j])) for j in range(n)] for i in range(n)]
    ev = {
        'ev': 'matrix',
        'codes': [m.value.code for m in members],
        'names': [m.name for m in members],
        'lt': mat(lambda a, b: a < b), 'le': mat(lambda a, b: a <= b), 'eq': mat(lambda a, b: a == b),
        'gt': mat(lambda a, b: a > b), 'ge': mat(lambda a, b: a >= b),
        'hash_eq': mat(lambda a, b: hash(a) == hash(b)),
    }
    # the hash of a version is a property of the version, whatever the object went through: an object that has been
    # compared / sorted / used as a dictionary key still hashes like a fresh equal object, and is found in a set built
    # from fresh ones (and the other way round)
    import copy
    stable = []
    for i, m in enumerate(members):
        used, fresh = TlsProtocolVersion(m), TlsProtocolVersion(m)           # never compared so far
        h0 = hash(fresh)
        try:
            sorted([used] + [copy.deepcopy(o) for o in objs[:6]])
            _ = [used < o or used > o or used <= o for o in objs]
            max([used, objs[0], objs[-1]])
        except Exception:  # pylint: disable=broad-except
            pass
        stable.append(bool(hash(used) == h0 and hash(fresh) == h0 and used in {fresh} and fresh in {used} and
                           len({used, fresh, TlsProtocolVersion(m)}) == 1))
    ev['hash_stable'] = stable
    return ev, objs


def _shuffles(rep, objs, groups, per_group):
    rng = rep.rng
    events = []
    line = 2
    n = len(objs)
    for g in range(groups):
        size = rng.choice([2, 3, 3, 4, 5, 8, 12, n, n + 5])
        base = [rng.randrange(n) for _ in range(size)] if size > n else rng.sample(range(n), size)
        if g == 0:
            base = list(range(n))
        first = line
        for _ in range(per_group):
            order = list(base)
            rng.shuffle(order)
            lst = [objs[i] for i in order]
            idx = {id(o): i for i, o in enumerate(objs)}
            srt = sorted(lst)
            # sorted() is stable and equal elements are interchangeable: compare by index
            events.append({'ev': 'shuffle', 'first': first, 'order': [i + 1 for i in order],
                           'sorted': [idx[id(o)] + 1 for o in srt],
                           'max': idx[id(max(lst))] + 1, 'min': idx[id(min(lst))] + 1,
                           'setlen': len(set(lst))})
            line += 1
    return events


def _bad(res):
    return [tlc.parse_tla_tuple(s) for s in res.prints('BAD')]


def run(rep):
    thorough = rep.tier == 'thorough'
    rep.rule = ('exhaustive: all ordered pairs and triples of all defined versions (matrix recorded from the '
                'implementation, judged by TLC); arrival machine over every subset of <= %d versions in every order; '
                'a case is a pair/triple/shuffle, all are distinct by construction' % (4 if thorough else 3))
    # 1. design level: the demanded order is satisfiable, machine is order independent under it
    res = tlc.require_ok(tlc.run('MC_Version', 'MC_Version', workers=4, coverage=True), 'MC_Version')
    rep.add_tlc(res, 'MC_Version (RankLess, design level)')
    if 'Arrive' in res.coverage_zero():
        rep.machinery('MC_Version: action Arrive never taken')
    # the pre-fix relation must be rejected by the same model (specification-level mutant)
    res = tlc.run('MC_Version', 'MC_Version_prefix', workers=4)
    if not res.invariant_violated:
        rep.machinery('MC_Version_prefix: the as-coded pre-fix relation was NOT rejected; the model lost its teeth')
    rep.extra['spec_mutant_rejected_by'] = res.invariant_violated

    # 2. code -> spec: matrix + shuffles
    mat, objs = _matrix()
    n = len(objs)
    events = [mat] + _shuffles(rep, objs, 60 if thorough else 20, 10 if thorough else 6)
    path = write_ndjson(os.path.join(rep.build, 'trace.ndjson'), events)
    res = tlc.run('Trace_Version', workers=1, env={'TRACE_FILE': path}, timeout=900)
    if not res.finished or res.postcondition_failed or [e for e in res.errors]:
        raise tlc.TlcError('Trace_Version did not consume the trace:\n' + res.out[-2000:])
    rep.add_tlc(res, 'Trace_Version (axioms over matrix, shuffles)')
    rep.traces += 1
    rep.trace_lines += len(events)
    rep.evaluations += n * n + n * n * n + len(events) - 1
    for i in range(n):
        rep.distinct.add('row%d' % i)
    rep.distinct.update('shuffle%d' % i for i in range(len(events) - 1))
    rep.extra['pairs'] = n * n
    rep.extra['triples'] = n ** 3
    rep.extra['versions'] = n
    rep.exhaustive = True
    names = dict(zip(mat['codes'], mat['names']))
    for tag, clause, a, b, c in _bad(res):
        if clause in ('transitive', 'trichotomy', 'irreflexive', 'eq-is-identity', 'eq-implies-hash', 'hash-depends-on-object-history',
                      'gt-is-converse', 'le-consistent', 'ge-consistent', 'rank'):
            who = [names.get(x, x) for x in (a, b, c) if x]
            rep.violation('TlsProtocolVersion|%s|comparison' % clause,
                          'order axiom %s fails, first witness %s' % (clause, who),
                          {'clause': clause, 'codes': [a, b, c], 'names': who})
        else:
            rep.violation('TlsProtocolVersion|%s|sorted-max-min-set' % clause,
                          'shuffle clause %s fails at trace line %s' % (clause, a),
                          {'clause': clause, 'event': events[a - 1], 'first': events[b - 1] if b else None,
                           'names': mat['names']})
    rep.sample({'pair': [mat['names'][5], mat['names'][7]], 'lt': mat['lt'][5][7], 'gt': mat['gt'][5][7]})
    rep.sample({'triple': [mat['names'][7], mat['names'][5], mat['names'][37]]})
    rep.sample(events[1])

    # 3. histories: arrival machine instantiated with the implementation's relation
    cfg = 'MC_VersionImpl_4' if thorough else 'MC_VersionImpl'
    res = tlc.run('MC_VersionImpl', cfg, workers=16, env={'TRACE_FILE': path}, timeout=1800)
    rep.add_tlc(res, cfg + ' (arrival orders under the implementation relation)')
    if res.invariant_violated:
        inv = res.invariant_violated[0]
        # the counterexample behaviour as printed by TLC
        beh = res.out[res.out.find('Error: The behavior up to this point'):][:3000]
        rep.violation('TlsProtocolVersion|arrival:%s|comparison' % inv,
                      'some order of arrival makes the running max/min/sorted list wrong (%s)' % inv,
                      {'invariant': inv, 'tlc_behaviour': beh})
    elif not res.ok:
        raise tlc.TlcError(cfg + ':\n' + res.out[-2000:])
    rep.assumptions += ['the set of defined versions is cryptodatahub.tls.version.TlsVersion as installed in /venv',
                        'VersionOps.MustLess is my reading of the order stated in the property text']


def replay(rep, path):
    run(rep)
