"""C18 - insignificant spelling of text fields never changes what is parsed."""
import json
import os

from .. import tlc, judge
from ..api import call
from ..project import project
from ..common import digest, write_ndjson

LEVEL = 'model_checking'

# (type, class path, separator, gap after separator, "=" character, leading directives fixed in place, quotable names, canonical values)
TYPES = [
    ('sts', 'httpx.header.HttpHeaderFieldValueSTS', ';', ' ', '=', 0, ['max-age'],
     ['max-age=31536000; includeSubDomains; preload', 'max-age=0', 'max-age=600; includeSubDomains']),
    ('expect_ct', 'httpx.header.HttpHeaderFieldValueExpectCT', ',', ' ', '=', 0, [],
     ['max-age=86400, enforce, report-uri="https://example.com/report"', 'max-age=1', 'max-age=3600, enforce']),
    ('expect_staple', 'httpx.header.HttpHeaderFieldValueExpectStaple', ';', ' ', '=', 0, [],
     ['max-age=31536000; includeSubDomains; preload', 'max-age=1']),
    ('hpkp', 'httpx.header.HttpHeaderFieldValuePublicKeyPinning', ';', ' ', '=', 0, [],
     ['pin-sha256="cGluLXNoYTI1Ng=="; max-age=1; includeSubDomains; report-uri="http://example.com"', 'pin-sha256="cGluLXNoYTI1Ng=="; max-age=5184000']),
    ('cache_control', 'httpx.header.HttpHeaderFieldValueCacheControlResponse', ',', ' ', '=', 0, [],
     ['max-age=3600, no-cache, must-revalidate', 'no-store', 'public, s-maxage=60', 'private, max-age=0, no-transform']),
    ('set_cookie', 'httpx.header.HttpHeaderFieldValueSetCookie', ';', ' ', '=', 1, [],
     ['name=value; Secure; HttpOnly; Path=/; Domain=example.com; SameSite=Lax', 'a=b', 'sid=abc123; Max-Age=3600; Secure']),
    ('content_type', 'httpx.header.HttpHeaderFieldValueContentType', ';', ' ', '=', 1, ['charset'],
     ['text/html; charset=utf-8', 'application/json', 'multipart/form-data; boundary=something']),
    ('xxss', 'httpx.header.HttpHeaderFieldValueXXSSProtection', ';', ' ', '=', 1, [], ['1; mode=block', '0', '1', '1; report=http://example.com/r', '1; mode=block; report=https://example.com/xss']),
    ('csp', 'httpx.header.HttpHeaderFieldValueContentSecurityPolicy', ';', ' ', ' ', 0, [],
     ["default-src 'self'; script-src 'self' https://example.com", "default-src 'none'", "img-src *; frame-ancestors 'none'"]),
    ('dmarc', 'dnsrec.txt.DnsRecordTxtValueDmarc', ';', ' ', '=', 2, [],
     ['v=DMARC1; p=none; rua=mailto:a@example.com', 'v=DMARC1; p=reject; sp=quarantine; adkim=s; aspf=r; pct=50', 'v=DMARC1; p=none']),
    ('mta_sts', 'dnsrec.txt.DnsRecordTxtValueMtaSts', ';', ' ', '=', 1, [], ['v=STSv1; id=20160831085700Z', 'v=STSv1; id=1']),
    ('tlsrpt', 'dnsrec.txt.DnsRecordTxtValueTlsRpt', ';', ' ', '=', 1, [],
     ['v=TLSRPTv1; rua=mailto:tlsrpt@example.com', 'v=TLSRPTv1; rua=https://example.com/report']),
    ('spf', 'dnsrec.txt.DnsRecordTxtValueSpf', ' ', '', '\x00', 1, [], ['v=spf1 a mx -all', 'v=spf1 ip4:192.0.2.0/24 ~all', 'v=spf1 -all']),
    ('nel', 'httpx.header.HttpHeaderFieldValueNetworkErrorLogging', ',', ' ', ':', 0, [],
     ['{"report_to": "network-errors", "max_age": 86400, "include_subdomains": true}', '{"report_to": "nel", "max_age": 1}',
      '{"report_to": "x", "max_age": 2592000, "include_subdomains": false, "success_fraction": 0.5, "failure_fraction": 1.0}']),
    ('block', 'httpx.header.HttpHeaderFields', '\r\n', '', ':', 0, [],
     ['Strict-Transport-Security: max-age=1\r\nX-Frame-Options: DENY\r\nX-Unknown-Header: some value\r\n\r\n',
      'Content-Type: text/html\r\nServer: nginx\r\n\r\n', 'X-Custom: 1\r\n\r\n']),
]


def tokenise(t, text):
    typ, _, sep, gap, eq, fixed, quotable, _ = t
    body = text
    tail = ''
    eqpost = ''
    head = ''
    if typ == 'block':
        body = text[:-4]
        tail = '\r\n\r\n'
        eqpost = ' '
    if typ == 'nel':
        body, head, tail, eqpost = text[1:-1], '{', '}', ' '
    parts = body.split(sep + gap) if body else []
    dirs = []
    for p in parts:
        if eq != '\x00' and eq in p:
            name, val = p.split(eq, 1)
            if typ in ('block', 'nel'):
                val = val[1:] if val.startswith(' ') else val
            quoted = typ != 'nel' and len(val) >= 2 and val[0] == '"' and val[-1] == '"'      # JSON: the quotes are part of the value
            if quoted:
                val = val[1:-1]
            dirs.append({'name': list(name.encode()), 'hasval': True, 'val': list(val.encode()), 'quoted': quoted,
                         'quotable': name.lower() in quotable and not quoted})
        else:
            dirs.append({'name': list(p.encode()), 'hasval': False, 'val': [], 'quoted': False, 'quotable': False})
    return {'type': typ, 'text': list(text.encode()), 'sep': list(sep.encode()), 'gap': list(gap.encode()), 'eq': ord(eq) if eq != '\x00' else 61,
            'eqpost': list(eqpost.encode()), 'tail': list(tail.encode()), 'fixed': fixed, 'deep': len(dirs) <= 4, 'dirs': dirs,
            'caseskip': 1 if typ in ('set_cookie', 'content_type', 'xxss') else 0,   # cookie-pair / media type / the bare flag are values, not names
            'bareunknown': typ not in ('dmarc', 'mta_sts', 'tlsrpt', 'nel'), 'head': list(head.encode()), 'qnames': typ == 'nel'}


def strip_unknown(p):
    """projection without anything that mentions the injected unknown directive"""
    if isinstance(p, dict):
        return {k: strip_unknown(v) for k, v in p.items() if 'x-verif' not in json.dumps(v).lower() or isinstance(v, (dict, list))}
    if isinstance(p, list):
        return [strip_unknown(v) for v in p if not (('x-verif' in json.dumps(v).lower()) and not isinstance(v, (dict, list)))
                and not (isinstance(v, (dict, list)) and 'x-verif' in json.dumps(v).lower() and _leafy(v))]
    return p


def _leafy(v):
    """a small container that exists only because of the unknown directive (a pair, a one-directive object)"""
    s = json.dumps(v)
    return len(s) < 400


def replay_engine(rep):
    """specification -> code for the text list engine: every text of <= 6 characters over {a, b, ';', ' '} with the four
    parameter combinations, outcome computed by TLC from the as-coded model (ParserText.tla), replayed on the real engine"""
    from cryptoparser.common.parse import ParserText
    from cryptodatahub.common.exception import InvalidValue
    out = os.path.join(rep.build, 'gen_text.ndjson')
    res = tlc.require_ok(tlc.run('Gen_ParserText', workers=1, env={'OUT_FILE': out}, timeout=900), 'Gen_ParserText')
    rep.add_tlc(res, 'Gen_ParserText (as-coded list engine on all texts <= 6 chars; implements the RFC 9110 list rule)')
    n = 0
    hung = 0
    for line in open(out):
        c = json.loads(line)
        n += 1
        data = bytes(c['text'])

        def run_list(c):
            parser = ParserText(data)
            try:
                parser.parse_string_array('v', ';', separator_spaces=' ' if c['spaces'] else '', skip_empty=c['skip'],
                                          max_item_num=None if c['maxitems'] < 0 else c['maxitems'])
                return {'k': 'ok', 'items': [list(x.encode('ascii')) for x in parser['v']], 'pos': parser.parsed_length}
            except InvalidValue:
                return {'k': 'INV', 'items': [], 'pos': 0}
            except Exception as e:  # pylint: disable=broad-except
                return {'k': type(e).__name__, 'items': [], 'pos': 0}
        if hung >= 3:
            continue
        got = _with_deadline(run_list, c, 1.0)
        hung += got['k'] == 'does-not-terminate'
        if got != c['res']:
            params = 'spaces=%s,skip_empty=%s,max_item_num=%s' % (c['spaces'], c['skip'], c['maxitems'])
            rep.violation('ParserText.parse_string_array|list-engine-differs-from-model|%s' % params,
                          'the text list engine gives another result than its as-coded model for %r (%s)' % (data, params),
                          {'text': data.decode('ascii'), 'params': params, 'model': c['res'], 'implementation': got})
    rep.extra['engine_cases_replayed'] = n
    rep.traces += n
    rep.evaluations += n


class _Deadline(BaseException):
    pass


def _with_deadline(func, arg, seconds=3.0):
    """a primitive that does not come back is a result too (a reader that stops advancing): never hang the check"""
    import signal

    def on_alarm(signum, frame):
        raise _Deadline()
    old = signal.signal(signal.SIGALRM, on_alarm)
    signal.setitimer(signal.ITIMER_REAL, seconds)
    try:
        return func(arg)
    except _Deadline:
        return {'k': 'does-not-terminate', 'items': [], 'pos': 0}
    finally:
        signal.setitimer(signal.ITIMER_REAL, 0)
        signal.signal(signal.SIGALRM, old)


def _run_prim(c):
    """one generated case on the real ParserText: the result in the model's terms"""
    from cryptoparser.common.parse import ParserText
    from cryptoparser.common.exception import NotEnoughData
    from cryptodatahub.common.exception import InvalidValue
    data = bytes(c['text'])
    seps = bytes(c['seps']).decode('ascii')
    parser = ParserText(data)
    try:
        if c['op'] == 'numeric_array':
            vals, n = parser._parse_numeric_array('v', None if c['itemnum'] < 0 else c['itemnum'], seps or None, bytes, c['floating'])   # pylint: disable=protected-access
            got = {'k': 'ok', 'items': [list(v) for v in vals], 'pos': n}
            # the public entry points over the same engine
            public = None
            if not c['floating']:
                p2 = ParserText(data)
                p2.parse_numeric_array('v', None if c['itemnum'] < 0 else c['itemnum'], seps or None)
                public = (p2.parsed_length, [str(x) for x in p2['v']])
                if public[0] != n or [int(bytes(v)) for v in vals] != p2['v']:
                    got['k'] = 'public-entry-differs'
            if c['itemnum'] == 1 and not seps:
                p3 = ParserText(data)
                (p3.parse_float if c['floating'] else p3.parse_numeric)('v')
                if p3.parsed_length != n or p3['v'] != (float if c['floating'] else int)(bytes(vals[0])):
                    got['k'] = 'public-entry-differs'
        elif c['op'] == 'separator':
            parser.parse_separator(seps, c['min'], None if c['max'] < 0 else c['max'])
            got = {'k': 'ok', 'items': [], 'pos': parser.parsed_length}
        elif c['op'] == 'until':
            (parser.parse_string_until_separator_or_end if c['mayend'] else parser.parse_string_until_separator)('v', seps)
            got = {'k': 'ok', 'items': [list(parser['v'].encode('ascii'))], 'pos': parser.parsed_length}
        elif c['op'] == 'bool':
            parser.parse_bool('v')
            got = {'k': 'ok', 'items': [[1 if parser['v'] is True else 0 if parser['v'] is False else 9]], 'pos': parser.parsed_length}
        else:
            parser.parse_string_by_length('v', c['min'], None if c['max'] < 0 else c['max'])
            got = {'k': 'ok', 'items': [list(parser['v'].encode('ascii'))], 'pos': parser.parsed_length}
    except InvalidValue:
        got = {'k': 'INV', 'items': [], 'pos': 0}
    except NotEnoughData:
        got = {'k': 'NED', 'items': [], 'pos': 0}
    except Exception as e:  # pylint: disable=broad-except
        got = {'k': type(e).__name__, 'items': [], 'pos': 0}
    if got['k'] != 'ok' and parser.parsed_length != 0:
        got['k'] += '+cursor-moved'
    return got


def replay_prims(rep):
    """specification -> code for the other ParserText primitives (number lists, floats, separators, until-separator, literals,
    by-length): every text of <= 5 characters with every small parameter combination, outcome computed by TLC"""
    out = os.path.join(rep.build, 'gen_text_prims.ndjson')
    res = tlc.require_ok(tlc.run('Gen_ParserTextPrims', workers=1, env={'OUT_FILE': out}, timeout=900), 'Gen_ParserTextPrims')
    rep.add_tlc(res, 'Gen_ParserTextPrims (as-coded number list / separator / until / bool / by-length readers on all short texts; '
                     'a number list consumes exactly the join of its items)')
    n = 0
    by_op = {}
    hung = {}
    for line in open(out):
        c = json.loads(line)
        n += 1
        by_op[c['op']] = by_op.get(c['op'], 0) + 1
        if hung.get(c['op'], 0) >= 3:
            continue           # this reader stops advancing: reported, no need to wait for every case
        got = _with_deadline(_run_prim, c, 1.0)
        if got['k'] == 'does-not-terminate':
            hung[c['op']] = hung.get(c['op'], 0) + 1
        if got != c['res']:
            params = 'itemnum=%s,seps=%r,floating=%s,min=%s,max=%s,mayend=%s' % (c['itemnum'], bytes(c['seps']).decode(), c['floating'], c['min'], c['max'], c['mayend'])
            rep.violation('ParserText.%s|text-primitive-differs-from-model|%s' % (c['op'], got['k']),
                          'ParserText %s gives another result than its as-coded model for %r (%s): model %s, implementation %s' % (
                              c['op'], bytes(c['text']), params, c['res'], got),
                          {'op': c['op'], 'text': bytes(c['text']).decode('ascii'), 'params': params, 'model': c['res'], 'implementation': got})
    rep.extra['text_primitive_cases_replayed'] = by_op
    rep.traces += n
    rep.evaluations += n


def replay_header_blocks(rep):
    """specification -> code for the header section dispatcher (HeaderBlock.tla): blocks over a pool of field lines"""
    from cryptoparser.httpx import header as H
    variant = H.HttpHeaderFieldParsedVariant._get_variants()          # pylint: disable=protected-access
    known = sorted(n.value.code for n in variant)
    pool = []
    picked = 0
    for name_member, classes in variant.items():
        cls = classes[0]
        vcls = cls._get_value_class()                                   # pylint: disable=protected-access
        name = name_member.value.normalized_name
        good = None
        for cand in ('1', 'nosniff', 'DENY', 'no-cache', 'max-age=1', 'text/html', 'abc'):
            if call(vcls.parse_exact_size, cand.encode())[0] == 'ok' and call(vcls.parse_exact_size, b'\x7f?')[0] != 'ok':
                good = cand
                break
        if good is None:
            continue
        picked += 1
        for spelled in (name, name.upper(), name.lower(), name[:-1], name + 'x', name.split('-')[-1] if '-' in name else name[1:]):
            for value, ok in ((good, True), ('\x7f?', False)):
                pool.append({'name': list(spelled.encode()), 'value': list(value.encode()), 'ok': ok})
        if picked == 2:
            break
    pool.append({'name': list(b'X-Unknown'), 'value': list(b'some value'), 'ok': True})
    inp = write_ndjson(os.path.join(rep.build, 'header_pool.ndjson'), [{'pool': pool, 'known': [list(k.encode()) for k in known]}])
    out = os.path.join(rep.build, 'header_blocks.ndjson')
    res = tlc.require_ok(tlc.run('Gen_HeaderBlock', workers=1, env={'TRACE_FILE': inp, 'OUT_FILE': out}, timeout=900), 'Gen_HeaderBlock')
    rep.add_tlc(res, 'Gen_HeaderBlock (header sections of <= 3 lines over known / respelled / fragment / unknown names: text and expected fields)')
    n = 0
    for line in open(out):
        c = json.loads(line)
        n += 1
        data = bytes(c['text'])
        o, fields, _ = call(H.HttpHeaderFields.parse_exact_size, data)
        got = None
        if o == 'ok':
            got = []
            for item in fields:
                if isinstance(item, H.HttpHeaderFieldUnparsed):
                    got.append({'typed': False, 'name': list(item.name.lower().encode()), 'value': list(item.value.encode())})
                else:
                    co = call(lambda x: bytes(x.compose()), item)
                    text = co[1] if co[0] == 'ok' else b': '
                    got.append({'typed': True, 'name': list(item.get_header_field_name().value.code.encode()),
                                'value': list(text.split(b': ', 1)[1] if b': ' in text else b'')})
        if got != c['expected']:
            names = [bytes(e['name']).decode() for e in c['expected']]
            what = 'rejected' if got is None else 'count' if len(got) != len(c['expected']) else \
                'taken-for-a-known-field' if any(g['typed'] and not e['typed'] for g, e in zip(got, c['expected'])) else \
                'known-field-not-recognised' if any(e['typed'] and not g['typed'] for g, e in zip(got, c['expected'])) else 'name-or-value-changed'
            rep.violation('HttpHeaderFields|header-section-differs-from-specification|%s' % what,
                          'a header section parses to other fields than HeaderBlock.tla says (%s): %r' % (what, data[:120]),
                          {'text': data.decode('latin-1'), 'expected': c['expected'], 'implementation': got, 'names': names})
    rep.extra['header_sections_replayed'] = n
    rep.traces += n
    rep.evaluations += n


def order_worker(arg):
    """in a process that has parsed nothing yet: the canonical values of type a, then those of type b; what b gives"""
    a, b = arg
    from .. import corpus

    def parse_all(t):
        cls = corpus.resolve('cryptoparser.' + t[1])
        out = []
        for text in t[7]:
            o, obj, _ = call(cls.parse_exact_size, text.encode())
            co = call(lambda x: bytes(x.compose()), obj) if o == 'ok' else ('-', b'')
            out.append([o, digest(project(obj)) if o == 'ok' else '-', co[0], digest(list(co[1])) if co[0] == 'ok' else '-'])
        return out
    if a is not None:
        parse_all(TYPES[a])
    return parse_all(TYPES[b])


def order_phase(rep):
    """what a field type parses to must not depend on which other field type the process has parsed before (a header block
    holds them in any order): every ordered pair of types, each in a process of its own, against the type parsed first"""
    from ..par import pmap
    n = len(TYPES)
    args = [(None, b) for b in range(n)] + [(a, b) for a in range(n) for b in range(n) if a != b]
    res = dict(zip(args, pmap(order_worker, args, chunk=1)))
    events = []
    for (a, b), got in res.items():
        if a is None:
            continue
        events.append({'ev': 'order', 'type': TYPES[b][0], 'before': TYPES[a][0], 'same': got == res[(None, b)],
                       'alone': res[(None, b)], 'after': got})
        rep.case(digest(['order', TYPES[a][0], TYPES[b][0]]))
    rep.extra['ordered_pairs_of_field_types_in_fresh_processes'] = len(events)
    return events


def enum_case_events(rep):
    """directive values that are case-insensitive tokens (Referrer-Policy, SameSite, X-Frame-Options, ...): every member of every
    case-insensitive string enumeration in four case patterns, the last one mixed inside the token - lower-case up to where a
    shorter member of the same enumeration ends, upper-case behind - has to parse to that member and nothing else"""
    import enum
    from .. import corpus
    from cryptoparser.common.base import StringEnumCaseInsensitiveParsable
    corpus.import_all()
    events = []
    for cls in corpus.all_subclasses(StringEnumCaseInsensitiveParsable):
        if not (isinstance(cls, type) and issubclass(cls, enum.Enum)) or not cls.__module__.startswith('cryptoparser.'):
            continue
        codes = [m.value.code for m in cls]
        for m in cls:
            code = m.value.code
            spellings = {code.lower(), code.upper(), code.title()}
            for other in codes:
                if other != code and code.lower().startswith(other.lower()):
                    spellings.add(code[:len(other)].lower() + code[len(other):].upper())
                    spellings.add(code[:len(other)].upper() + code[len(other):].lower())
            spellings.add(code[:len(code) // 2].lower() + code[len(code) // 2:].upper())
            for text in sorted(spellings):
                o, got, _ = call(cls.parse_exact_size, text.encode('ascii', 'replace'))
                events.append({'ev': 'order', 'type': cls.__module__.replace('cryptoparser.', '') + '.' + cls.__name__, 'before': text,
                               'same': o == 'ok' and got is m, 'alone': code, 'after': o if o != 'ok' else getattr(getattr(got, 'value', None), 'code', '?'),
                               'enumcase': True})
                rep.case(digest(['enumcase', cls.__name__, text]))
    rep.extra['case_patterns_of_case_insensitive_tokens'] = len(events)
    return events


def fragment_block():
    """a header block of fields the library does NOT know whose names are fragments of names it knows (Cookie, Transport-Security,
    Policy, Options, ...), each with a value its longer namesake accepts: they stay unknown fields under their own name"""
    from .. import corpus, objects
    from cryptoparser.httpx.header import HttpHeaderFields
    lines = {}
    for cls, obj, wire in objects.templates():
        if cls is HttpHeaderFields:
            for line in bytes(wire).split(b'\r\n'):
                if b': ' in line:
                    name, value = line.split(b': ', 1)
                    try:
                        lines.setdefault(name.decode('ascii'), value.decode('ascii'))
                    except UnicodeDecodeError:
                        pass
    known = {n.lower() for n in lines}
    out, seen = [], set()
    for name, value in sorted(lines.items()):
        parts = name.split('-')
        frags = {'-'.join(parts[i:j]) for i in range(len(parts)) for j in range(i + 1, len(parts) + 1)} | {name[1:], name[:-1]}
        for f in sorted(frags):
            if f and f.lower() not in known and f.lower() not in seen and f.lower() != name.lower() and len(out) < 24:
                seen.add(f.lower())
                out.append('%s: %s' % (f, value))
    return '\r\n'.join(out) + '\r\n\r\n' if out else ''


def names_of(data):
    return [l.split(b':', 1)[0].strip().lower() for l in bytes(data).split(b'\r\n') if b':' in l]


def run(rep):
    from .. import corpus
    order_events = order_phase(rep)          # first: the forked workers inherit a process that has parsed nothing
    order_events += enum_case_events(rep)
    replay_engine(rep)
    replay_prims(rep)
    replay_header_blocks(rep)
    thorough = rep.tier == 'thorough'
    cases = []
    meta = []
    frag = fragment_block()
    rep.extra['unknown_names_that_are_fragments_of_known_ones'] = frag.count('\r\n') - 1
    for t in TYPES:
        for text in (t[7] + [frag] if t[0] == 'block' and frag else t[7]):
            c = tokenise(t, text)
            if not thorough and len(c['dirs']) > 3:
                c['deep'] = False
            cases.append(c)
            meta.append((t, text))
    inp = write_ndjson(os.path.join(rep.build, 'canon.ndjson'), cases)
    out = os.path.join(rep.build, 'spellings.ndjson')
    res = tlc.require_ok(tlc.run('Gen_TextField', workers=1, env={'TRACE_FILE': inp, 'OUT_FILE': out}, timeout=1500), 'Gen_TextField')
    rep.add_tlc(res, 'Gen_TextField (respellings within two permitted actions; every action preserves Meaning)')
    spellings = [json.loads(l) for l in open(out)]
    rep.extra['spellings_generated'] = len(spellings)
    events = []
    canon = {}
    for i, (t, text) in enumerate(meta):
        cls = corpus.resolve('cryptoparser.' + t[1])
        o, obj, _ = call(cls.parse_exact_size, text.encode())
        c = {'cls': cls, 'out': o, 'proj': project(obj) if o == 'ok' else None, 'in_set': False}
        if o == 'ok':
            co = call(lambda x: x.compose(), obj)
            if co[0] == 'ok':
                o2, obj2, _ = call(cls.parse_exact_size, bytes(co[1]))
                c['in_set'] = o2 == 'ok' and digest(project(obj2)) == digest(c['proj'])
        canon[i + 1] = c
    from .. import text_trace
    text_trace.install()
    text_trace.LIMIT[0] = 60000 if thorough else 25000
    del text_trace.EVENTS[:]
    for sp in spellings:
        c = canon[sp['id']]
        data = bytes(sp['text'])
        o, obj, _ = call(c['cls'].parse_exact_size, data)
        same = False
        if o == 'ok' and c['proj'] is not None:
            p = project(obj)
            if any(a.startswith('unknown') for a in sp['path']):
                # the field that holds the injected unknown directive (the designated extension container) is left out on both sides
                pf = dict(p.get('fields', {})) if isinstance(p, dict) else {}
                cf = dict(c['proj'].get('fields', {})) if isinstance(c['proj'], dict) else {}
                holders = [k for k, v in pf.items() if 'x-verif' in json.dumps(v).lower()]
                if holders and all(isinstance(pf[k], (dict, list)) for k in holders):
                    for k in holders:
                        pf.pop(k, None)
                        cf.pop(k, None)
                    same = digest(pf) == digest(cf)
                else:
                    same = digest(strip_unknown(p)) == digest(strip_unknown(c['proj']))
            else:
                same = digest(p) == digest(c['proj'])
        names_same = True
        if o == 'ok' and sp['type'] == 'block':
            # a header block is the list of its fields: every field comes back under the name it was sent with
            co = call(lambda x: x.compose(), obj)
            names_same = co[0] == 'ok' and names_of(co[1]) == names_of(data)
        events.append({'type': sp['type'], 'id': sp['id'], 'path': sp['path'], 'text': data.decode('latin-1'), 'out': o if o == 'ok' else 'rejected:' + o,
                       'canon_out': c['out'] if c['out'] == 'ok' else 'rejected', 'compose_in_set': c['in_set'], 'same': same,
                       'names_same': bool(names_same)})
        rep.case(digest([sp['type'], sp['text']]))
    by_type = {}
    for e in events:
        by_type[e['type']] = by_type.get(e['type'], 0) + 1
    rep.extra['spellings_by_type'] = by_type
    rep.rule = ('for %d canonical values of 14 field types TLC generates every spelling reachable with one permitted respelling action '
                '(and two for values of <= %d directives): name case, OWS around separators, whitespace around "=", empty elements / '
                'trailing separator, order, quoting, unknown directives, OWS around header values - only where Allowed(type) cites the '
                'grammar; each spelling is parsed by the real class and compared with the canonical spelling. Distinct by (type, bytes).'
                % (len(cases), 4 if thorough else 3))
    # the same parses seen from inside: every call of the text list engine, validated against its as-coded model; plus the
    # corpus inputs of every text class (SSH name-lists, CSP sources, SPF terms ... item classes and fallbacks included)
    lib = corpus.by_class()
    for cls in sorted(lib, key=lambda c: c.__module__ + c.__qualname__):
        if isinstance(cls, type) and cls.__module__.split('.')[1] in ('httpx', 'dnsrec', 'ssh', 'common'):
            for d in lib[cls][:6]:
                call(cls.parse_immutable, d)
    text_trace.uninstall()
    tev = list(text_trace.EVENTS)
    del text_trace.EVENTS[:]
    rep.extra['list_engine_calls_validated'] = len(tev)
    rep.extra['list_engine_calls_with_plain_items'] = sum(1 for e in tev if e['plain'])
    rep.evaluations += len(tev)
    ttraces = [tev[i:i + 5000] for i in range(0, len(tev), 5000)]
    for tup, ti, ei, _ in judge.run(rep, 'Trace_ParserText', list(enumerate(ttraces)), 'listengine', max_lines=30000):
        e = tev[ti * 5000 + ei]
        params = 'seps=%s,spaces=%s,skip_empty=%s,max_item_num=%s,plain=%s' % (bytes(e['seps']).decode(), bytes(e['spaces']).decode(), e['skip'], e['maxitems'], e['plain'])
        rep.violation('ParserText.parse_string_array|%s|%s' % (tup[1], params),
                      'the text list engine (called while a real class parses) differs from its as-coded model on %r (%s)' % (bytes(e['text'][:80]), params), e)
    from . import c18_engine
    c18_engine.run_composer(rep, thorough)
    rep.sample(events[0])
    rep.sample(events[len(events) // 2])
    for e in events:
        e['ev'] = 'spell'
    nspell = len(events)
    for e in order_events:
        e.update(out='ok', canon_out='ok', compose_in_set=True, names_same=True, id=-1, path=['after:' + e['before']], text='-')
    events = events + order_events
    slim = [{k: e[k] for k in ('ev', 'out', 'canon_out', 'compose_in_set', 'same', 'names_same')} for e in events]
    traces = [slim[i:i + 4000] for i in range(0, len(slim), 4000)]
    verdicts = [(tup, events[ti * 4000 + ei]) for tup, ti, ei, _ in judge.run(rep, 'Trace_TextField', list(enumerate(traces)), 'spell')]
    # a spelling two actions away is attributed to a single action when that action alone already fails for the same value
    single = {(e['id'], e['path'][0]) for tup, e in verdicts if len(e['path']) == 1}
    for tup, e in verdicts:
        clause = tup[1]
        if e.get('enumcase'):
            rep.violation('%s|case-pattern-of-a-case-insensitive-token-not-recognised|%s' % (e['type'], e['alone']),
                          '%s: %r (a spelling of %r) parses to %s' % (e['type'], e['before'], e['alone'], e['after']),
                          {k: e[k] for k in ('type', 'before', 'alone', 'after')})
            continue
        if e.get('ev') == 'order':
            rep.violation('%s|result-depends-on-what-was-parsed-before|%s' % (e['type'], e['path'][0]),
                          '%s: canonical values parse or compose differently in a process that parsed %s values before' % (e['type'], e['before']),
                          {k: e[k] for k in ('type', 'before', 'alone', 'after')})
            continue
        if len(e['path']) == 2 and ((e['id'], e['path'][0]) in single or (e['id'], e['path'][1]) in single):
            continue
        path = '+'.join(e['path'])
        if clause in ('canonical-spelling-rejected', 'composed-spelling-parses-differently'):
            path = 'value%d' % e['id']
        rep.violation('%s|%s|%s' % (e['type'], clause, path), '%s: %s after %s (%r)' % (e['type'], clause, path, e['text'][:80]), e)
    rep.assumptions += ['Allowed(type) in TextField.tla is my reading of the RFC grammars (DESIGN.md Appendix D); NEL is generated as JSON object spellings',
                        'for the unknown-directive action the comparison ignores containers that only hold the unknown directive']


def replay(rep, path):
    run(rep)
