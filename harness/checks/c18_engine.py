"""Engine part of C18 (the canonical spelling is made by the text composer): the as-coded ComposerText model (MC, with the
join/parse-back theorem against the text list engine model) and primitive-level traces of the real text composer."""
import enum

from .. import tlc, judge, objects, variants, composer_text_trace
from ..api import call

_TEMPS = {}
TEXT_PACKAGES = ('httpx', 'dnsrec', 'ssh', 'common')


def drive(arg):
    qual, seed, limit = arg
    import random
    from .. import corpus
    cls = corpus.resolve(qual)
    rng = random.Random('ctx:%s:%s' % (seed, qual))
    pool = objects.vector_item_pool()
    temps = _TEMPS.get(cls, [])
    composer_text_trace.install()
    del composer_text_trace.EVENTS[:]
    composer_text_trace.LIMIT[0] = limit
    try:
        for obj in temps[:2]:
            call(lambda o: o.compose(), obj)
            for _, var in variants.variants(obj, rng, pool, per_field=8, others=temps):
                call(lambda o: o.compose(), var)
                if len(composer_text_trace.EVENTS) >= limit:
                    break
    finally:
        composer_text_trace.uninstall()
    evs = list(composer_text_trace.EVENTS)
    for e in evs:
        e['cls'] = qual.replace('cryptoparser.', '')
    del composer_text_trace.EVENTS[:]
    return evs


def direct(arg):
    """programs of primitives on a bare ComposerText (the primitives no class uses are reached only here)"""
    seed, count = arg
    import random
    from cryptoparser.common.parse import ComposerText
    from cryptoparser.httpx.version import HttpVersion
    from cryptoparser.common.exception import InvalidType
    rng = random.Random('ctx-direct:%s' % seed)
    words = ['', 'a', 'max-age', 'a,b', ' a', 'a ', ';', '=', 'no', 'yes', 'x' * 70]
    seps = ['', ',', ', ', ';', '; ', ' ', '.', '=', '\r\n']
    composer_text_trace.install()
    del composer_text_trace.EVENTS[:]
    composer_text_trace.LIMIT[0] = count * 12
    try:
        for _ in range(count):
            composer = ComposerText(rng.choice(['ascii', 'utf-8']))
            for _ in range(rng.randint(1, 6)):
                op = rng.randrange(7)
                try:
                    if op == 0:
                        composer.compose_numeric(rng.choice([0, 1, 9, 10, 255, 86400, 31536000, 1999999999, -1, -10]))
                    elif op == 1:
                        composer.compose_numeric_array([rng.choice([0, 1, 10, 127, 255, 1999999999]) for _ in range(rng.randint(0, 5))], rng.choice(seps))
                    elif op == 2:
                        composer.compose_bool(rng.choice([True, False, 0, 1, '', 'no']))
                    elif op == 3:
                        composer.compose_string_array([rng.choice(words + [7, HttpVersion.HTTP1_1]) for _ in range(rng.randint(0, 4))], rng.choice(seps))
                    elif op == 4:
                        items = [rng.choice([HttpVersion.HTTP1_0, HttpVersion.HTTP1_1, 'token', 7, None]) for _ in range(rng.randint(0, 4))]
                        composer.compose_parsable_array(items, rng.choice(seps), rng.choice([None, str]))
                    elif op == 5:
                        composer.compose_string(rng.choice(words))
                    else:
                        composer.compose_separator(rng.choice(seps))
                except (InvalidType, ValueError):
                    pass
    finally:
        composer_text_trace.uninstall()
    evs = list(composer_text_trace.EVENTS)
    for e in evs:
        e['cls'] = 'direct'
    del composer_text_trace.EVENTS[:]
    return evs


def run_composer(rep, thorough):
    from ..par import pmap
    res = tlc.require_ok(tlc.run('MC_ComposerText', 'MC_ComposerText', workers=8, timeout=600, deadlock=False), 'MC_ComposerText')
    rep.add_tlc(res, 'MC_ComposerText (as-coded text composer: only grows, atomic, decimal exact, as-coded join = intended join; '
                     'composed list parses back through the list engine model exactly when no item is empty, holds a separator or '
                     'starts/ends with a blank)')
    rejected = {}
    for cfg in ('keepsep', 'looseblank'):
        r = tlc.run('MC_ComposerText', 'MC_ComposerText_' + cfg, workers=4, timeout=300, deadlock=False)
        if not r.invariant_violated:
            rep.machinery('MC_ComposerText_%s: the defect shape was NOT rejected' % cfg)
        rejected[cfg] = r.invariant_violated[0]
    rep.extra['text_composer_spec_mutants_rejected'] = rejected
    _TEMPS.clear()
    for cls, obj, _ in objects.templates():
        if not isinstance(obj, enum.Enum) and type(obj) is cls and cls.__module__.split('.')[1] in TEXT_PACKAGES:
            _TEMPS.setdefault(cls, []).append(obj)
    objects.vector_item_pool()
    limit = 2000 if thorough else 400
    args = [(c.__module__ + '.' + c.__qualname__, rep.seed, limit) for c in sorted(_TEMPS, key=lambda c: c.__module__ + c.__qualname__)]
    events = []
    for evs in pmap(drive, args):
        events += evs
    for evs in pmap(direct, [(('%s:%d' % (rep.seed, i)), 150) for i in range(8 if thorough else 2)]):
        events += evs
    names = {}
    for e in events:
        names[e['name']] = names.get(e['name'], 0) + 1
    rep.extra['text_composer_primitive_events'] = names
    rep.extra['text_composer_events_modelled'] = sum(1 for e in events if e['det'])
    rep.evaluations += len(events)
    if events:
        det = [e for e in events if e['det'] and e['items']]
        rep.sample({k: (det or events)[0][k] for k in ('cls', 'name', 'items', 'sep', 'out', 'len0', 'len1', 'app')})
    keys = ('name', 'det', 'text', 'items', 'sep', 'neg', 'n', 'vals', 'kinds', 'b', 'out', 'len0', 'len1', 'prefix_same', 'app', 'applen')
    slim = [{k: e[k] for k in keys} for e in events]
    traces = [slim[i:i + 6000] for i in range(0, len(slim), 6000)]
    for tup, ti, ei, _ in judge.run(rep, 'Trace_ComposerText', list(enumerate(traces)), 'textcomposer', max_lines=30000):
        e = events[ti * 6000 + ei]
        rep.violation('ComposerText.%s|%s|%s' % (e['name'], tup[1], e['cls']), 'primitive %s inside %s.compose(): %s (out %s, appended %r)' % (
            e['name'], e['cls'], tup[1], e['out'], bytes(e['app'][:60])), e)
