"""C19 - parsing work is bounded linearly by the input size."""
import enum
import sys

from .. import tlc, corpus, judge, objects
from ..common import digest

LEVEL = 'exploration'
_TOOL = 3


PER_BYTE, BASE = 3000, 20000          # Growth!PerByte, Growth!Base


class _WorkBudgetExceeded(BaseException):
    """raised from the LINE callback: not an Exception, so no handler of the library swallows it"""


def measure(cls, data):
    """(outcome, interpreter LINE events, max call depth above the entry) of cls.parse_immutable(data) - deterministic"""
    mon = sys.monitoring
    state = {'lines': 0, 'depth': 0, 'max': 0}

    budget = PER_BYTE * len(data) + BASE       # Growth!Bounded: beyond this the point is a violation whatever the count would be

    def on_line(code, line):
        state['lines'] += 1
        if state['lines'] > budget and not state.get('stopped'):
            state['stopped'] = True          # once: the handler below runs monitored lines too
            raise _WorkBudgetExceeded()

    def on_start(code, off):
        state['depth'] += 1
        if state['depth'] > state['max']:
            state['max'] = state['depth']

    def on_return(code, off, retval):
        state['depth'] -= 1

    def on_unwind(code, off, exc):
        state['depth'] -= 1
    try:
        mon.use_tool_id(_TOOL, 'verif-c19')
    except ValueError:
        pass
    E = mon.events
    mon.register_callback(_TOOL, E.LINE, on_line)
    mon.register_callback(_TOOL, E.PY_START, on_start)
    mon.register_callback(_TOOL, E.PY_RETURN, on_return)
    mon.register_callback(_TOOL, E.PY_UNWIND, on_unwind)
    out = 'ok'
    mon.set_events(_TOOL, E.LINE | E.PY_START | E.PY_RETURN | E.PY_UNWIND)
    try:
        try:
            cls.parse_immutable(data)
        except _WorkBudgetExceeded:
            out = 'work-budget-exceeded'
        except RecursionError:
            out = 'RecursionError'
        except MemoryError:
            out = 'MemoryError'
        except Exception as e:  # pylint: disable=broad-except
            out = type(e).__name__
    finally:
        mon.set_events(_TOOL, 0)
    return out, state['lines'], state['max']


SIZES_QUICK = [256, 512, 1024, 2048, 4096]
SIZES_THOROUGH = [256, 512, 1024, 2048, 4096, 8192, 16384]


def shapes_for(seed_bytes, sizes):
    """scalable input shapes built from one accepted input: list of (shape name, [(size, declared, bytes), ...])"""
    out = []
    L = max(len(seed_bytes), 1)

    def series(name, build):
        pts = []
        for n in sizes:
            b = build(n)
            if b is not None:
                pts.append((len(b), 0, b))
        if len(pts) >= 3:
            out.append((name, pts))
    series('repeat', lambda n: seed_bytes * max(1, n // L))
    big_seed_pads = ('pad-crlf', 'pad-header-line', 'pad-lf-line', 'pad-semicolon', 'pad-comma', 'pad-space', 'pad-nul')
    for label, junk in (('pad-a', b'a'), ('pad-nul', b'\x00'), ('pad-ff', b'\xff'), ('pad-space', b' '), ('pad-semicolon', b';'),
                        ('pad-comma', b','), ('pad-crlf', b'\r\n'), ('pad-eq', b'='), ('pad-quote', b'"'), ('pad-a-colon', b'a:'),
                        ('pad-slash', b'a/'), ('pad-name-eq', b'a=b;'), ('pad-spf-term', b' a:x'), ('pad-word', b' mx'), ('pad-directive', b'; a=b'),
                        ('pad-list-item', b', a'), ('pad-header-line', b'\r\nX: y'), ('pad-quoted', b'"a" '), ('pad-lf-line', b'X: y\n'),
                        ('pad-lf', b'\n'), ('pad-cr', b'\r')):
        if L > 600 and label not in big_seed_pads:
            continue            # long seeds: the structural fillers only (every measurement costs up to the work budget)
        series(label + '-after', lambda n, j=junk: seed_bytes + j * (n // len(j)))
        series(label + '-before', lambda n, j=junk: j * (n // len(j)) + seed_bytes)
        if L > 4:
            series(label + '-inside', lambda n, j=junk: seed_bytes[:L // 2] + j * (n // len(j)) + seed_bytes[L // 2:])
    # a run of units and, far behind it, the one octet (or short token) that makes every unit of the run fail late: each unit is
    # scanned up to that far token, refused, and taken by the fallback alone - the next unit starts the same scan again
    texty = all(b in (9, 10, 13) or 32 <= b < 127 for b in seed_bytes[:200])
    if texty:
        for label, junk in () if L > 600 else (('pad-spf-term', b' a:x'), ('pad-word', b' mx'), ('pad-name-eq', b'a=b;'), ('pad-list-item', b', a'),
                            ('pad-directive', b'; a=b'), ('pad-header-line', b'\r\nX: y'), ('pad-a-colon', b'a:')):
            for tname, tail in (('slash99', b'/99'), ('crlf', b'\r\n'), ('quote', b'"'), ('eq', b'=')):
                series('%s-after-then-%s' % (label, tname), lambda n, j=junk, t=tail: seed_bytes + j * (n // len(j)) + t)
        # lines that carry the NAME the input itself starts with (a name the class knows) and a value it will refuse, ended by a
        # bare LF / CR, the CRLF only at the far end
        head = seed_bytes.split(b':', 1)[0] if b':' in seed_bytes[:60] else b''
        if head and b'\n' not in head and b' ' not in head:
            for lname, le in (('lf', b'\n'), ('cr', b'\r')):
                unit = head + b': \x7fx' + le
                series('pad-own-name-%s-lines-before' % lname, lambda n, u=unit: u * (n // len(u)) + b'\r\n' + seed_bytes)
                series('pad-own-name-%s-lines-after' % lname, lambda n, u=unit: seed_bytes + u * (n // len(u)) + b'\r\n')
                series('pad-own-name-%s-lines-only' % lname, lambda n, u=unit: u * (n // len(u)) + b'\r\n\r\n')
    # a list of type-length-value items (2-byte list length, items of 2-byte type + 2-byte length): a chain of items cut right
    # behind one of their inner 2-byte fields, that field claiming everything that follows in the list.  An item class that follows
    # inner lengths beyond the end of its own item reads the rest of the list for every item.
    if L >= 8 and int.from_bytes(seed_bytes[0:2], 'big') == L - 2 and 6 + int.from_bytes(seed_bytes[4:6], 'big') <= L:
        item = seed_bytes[2:6 + int.from_bytes(seed_bytes[4:6], 'big')]
        for k in range(4, min(len(item) - 1, 14)):
            def chain(n, k=k):
                ulen = k + 2
                count = min(n // ulen, 65533 // ulen)
                total = count * ulen
                body = bytearray()
                for i in range(count):
                    u = bytearray(item[:ulen])
                    u[2:4] = (ulen - 4).to_bytes(2, 'big')
                    u[k:k + 2] = min(total - (i * ulen + k + 2), 65535).to_bytes(2, 'big')
                    body += u
                return len(body).to_bytes(2, 'big') + bytes(body)
            series('chain-greedy-inner-length@%d' % k, chain)
    # declared lengths / counts far beyond the data: the size stays, the declared value doubles
    if L >= 4 and any(b > 0x7f or b < 0x20 for b in seed_bytes[:8]):
        for off in range(0, min(L - 1, 10)):
            for width in (1, 2, 3, 4):
                if off + width > L:
                    continue
                pts = []
                for k in range(3, 8 * width):
                    v = (1 << k) if k < 8 * width else (1 << (8 * width)) - 1
                    b = bytearray(seed_bytes)
                    b[off:off + width] = v.to_bytes(width, 'big')
                    pts.append((len(b), v, bytes(b)))
                if len(pts) >= 3:
                    out.append(('declared-be%d@%d' % (width, off), pts))
        # counts and lengths in the LAST fields of the message (trailing lists: responses, extensions, signatures), with the
        # rest of the data kept and with the data ending right behind the declared value
        for off in range(max(10, L - 14), L - 1):
            for width in (4, 2):
                if off + width > L:
                    continue
                for cut in (False, True):
                    pts = []
                    for k in (4, 7, 10, 12, 14, 15) if width == 2 else (4, 8, 12, 16, 18, 20, 22):
                        b = bytearray(seed_bytes)
                        b[off:off + width] = (1 << k).to_bytes(width, 'big')
                        if cut:
                            del b[off + width:]
                        pts.append((len(b), 1 << k, bytes(b)))
                    out.append(('declared-tail-be%d%s@-%d' % (width, '-cut' if cut else '', L - off), pts))
    return out


def drive(arg):
    qual, tier = arg
    cls = corpus.resolve(qual)
    lib = corpus.by_class()
    sizes = SIZES_THOROUGH if tier == 'thorough' else SIZES_QUICK
    events = []
    seeds = [s for s in lib.get(cls, []) if 0 < len(s) <= 1200]
    seeds = sorted(seeds, key=len)[:(3 if tier == 'thorough' else 1)]
    for sd in seeds:
        for name, pts in shapes_for(sd, sizes):
            points = []
            for size, declared, data in pts:
                out, steps, depth = measure(cls, data)
                points.append({'size': size, 'declared': min(declared, 2000000000), 'steps': min(steps, 2000000000), 'depth': depth, 'out': out})
                if out == 'work-budget-exceeded':
                    break           # the larger points of the series would only burn the same budget again
            events.append({'cls': cls.__module__.replace('cryptoparser.', '') + '.' + cls.__qualname__, 'shape': name, 'points': points,
                           'seed_hex': sd[:60].hex()})
    # lists of type-length-value items: the chain shapes once for every KIND of first item the accepted inputs of the class show
    kinds = {bytes(s[2:4]) for s in seeds}
    for sd in sorted([s for s in lib.get(cls, []) if 8 <= len(s) <= 1200], key=len):
        if bytes(sd[2:4]) in kinds or len(kinds) > 14:
            continue
        kinds.add(bytes(sd[2:4]))
        for name, pts in shapes_for(sd, sizes):
            if not name.startswith('chain-greedy'):
                continue
            points = []
            for size, declared, data in pts:
                out, steps, depth = measure(cls, data)
                points.append({'size': size, 'declared': min(declared, 2000000000), 'steps': min(steps, 2000000000), 'depth': depth, 'out': out})
                if out == 'work-budget-exceeded':
                    break
            events.append({'cls': cls.__module__.replace('cryptoparser.', '') + '.' + cls.__qualname__, 'shape': name + ':' + sd[2:4].hex(),
                           'points': points, 'seed_hex': sd[:60].hex()})
    return events


def vector_shapes(rep, thorough):
    """many list items: messages whose vectors hold n, 2n, 4n .. items (incl. repeated signalling suites in a client hello)"""
    from cryptoparser.tls.subprotocol import TlsHandshakeClientHello, TlsCipherSuiteVector
    from cryptoparser.tls.ciphersuite import TlsCipherSuite
    events = []
    by_code = {c.value.code: c for c in TlsCipherSuite}
    try:
        from cryptodatahub.tls.algorithm import TlsCipherSuiteExtension
    except ImportError:
        from cryptoparser.tls.subprotocol import TlsCipherSuiteExtension
    by_code.update({c.value.code: c for c in TlsCipherSuiteExtension})
    ordinary = [c for c in TlsCipherSuite if c.value.code not in (0x00ff, 0x5600)][:50]
    plans = {
        'hello-many-suites': lambda n: [ordinary[i % len(ordinary)] for i in range(n)],
        'hello-scsv-after-suites': lambda n: [ordinary[i % len(ordinary)] for i in range(n // 2)] + [by_code[0x00ff]] * (n // 2),
        'hello-scsv-before-suites': lambda n: [by_code[0x5600]] * (n // 2) + [ordinary[i % len(ordinary)] for i in range(n // 2)],
    }
    for name, plan in plans.items():
        points = []
        for n in ([128, 256, 512, 1024, 2048] + ([4096, 8192] if thorough else [])):
            try:
                wire = bytes(TlsHandshakeClientHello(cipher_suites=plan(n), fallback_scsv=False, empty_renegotiation_info_scsv=False).compose())
            except Exception:  # pylint: disable=broad-except
                continue
            out, steps, depth = measure(TlsHandshakeClientHello, wire)
            points.append({'size': len(wire), 'declared': 0, 'steps': steps, 'depth': depth, 'out': out})
        if len(points) >= 3:
            events.append({'cls': 'tls.subprotocol.TlsHandshakeClientHello', 'shape': name, 'points': points, 'seed_hex': ''})
    return events


def history_drive(arg):
    """runs in a worker process (registrations and caches stay there): the SAME input measured after 0, 60, 120, 240 earlier
    parses of it - plain, and (variant classes) after an application registered one more variant parser through the public
    register_variant_parser API.  The work for a fixed input is a constant of the class, not of the process history."""
    qual, _tier = arg
    from cryptoparser.common.base import VariantParsableBase
    from cryptoparser.common.parse import ParsableBase
    from cryptoparser.common.exception import InvalidType
    cls = corpus.resolve(qual)
    seeds = sorted([s for s in corpus.by_class().get(cls, []) if 0 < len(s) <= 400], key=len)[:1]
    events = []
    name = cls.__module__.replace('cryptoparser.', '') + '.' + cls.__qualname__

    def series(shape, data):
        points, done = [], 0
        for target in (0, 60, 120, 240):
            while done < target:
                try:
                    cls.parse_immutable(data)
                except Exception:  # pylint: disable=broad-except
                    pass
                done += 1
            out, steps, depth = measure(cls, data)
            done += 1
            points.append({'size': len(data), 'declared': target, 'steps': steps, 'depth': depth, 'out': out})
        events.append({'cls': name, 'shape': shape, 'points': points, 'seed_hex': data[:60].hex(), 'history': True})

    for sd in seeds:
        for data, label in ((sd, 'accepted'), (sd[:-1] + bytes([sd[-1] ^ 0x55]) + b'zz', 'altered')):
            series('history-repeat-' + label, data)
    # every variant class reachable from this class gets one more registered parser (it never matches)
    class NeverMatches(ParsableBase):
        @classmethod
        def _parse(cls, parsable):
            raise InvalidType()

        def compose(self):
            return b''
    registered = 0
    for v in corpus.all_subclasses(VariantParsableBase):
        try:
            v._get_variants()          # abstract intermediate classes raise
            v.register_variant_parser('verif-unknown-vendor', NeverMatches)
            registered += 1
        except Exception:  # pylint: disable=broad-except
            continue
    if registered:
        for sd in seeds:
            for data, label in ((sd, 'accepted'), (sd[:-1] + bytes([sd[-1] ^ 0x55]) + b'zz', 'altered')):
                series('history-registered-variant-' + label, data)
    return events


def run(rep):
    from ..par import pmap
    thorough = rep.tier == 'thorough'
    res = tlc.require_ok(tlc.run('MC_Growth', 'MC_Growth', workers=2, timeout=300, deadlock=False), 'MC_Growth')
    rep.add_tlc(res, 'MC_Growth (loop terminates and work <= variants * size when the cursor strictly advances)')
    r = tlc.run('MC_Growth', 'MC_Growth_zero', workers=2, timeout=300, deadlock=False)
    if 'LinearWork' not in r.invariant_violated:
        rep.machinery('MC_Growth_zero: a loop that may consume zero bytes was NOT rejected')
    lib = corpus.by_class()
    classes = [c for c in corpus.concrete_parsables() if lib.get(c)]
    events = []
    for evs in pmap(drive, [(c.__module__ + '.' + c.__qualname__, rep.tier) for c in classes]):
        events += evs
    events += vector_shapes(rep, thorough)
    # one worker process per class: whatever the history series register or cache dies with the worker
    for evs in pmap(history_drive, [(c.__module__ + '.' + c.__qualname__, rep.tier) for c in classes], chunk=1):
        events += evs
    for e in events:
        rep.case(digest([e['cls'], e['shape'], e['seed_hex']]))
    rep.extra['series'] = len(events)
    rep.extra['classes'] = len({e['cls'] for e in events})
    rep.extra['measurements'] = sum(len(e['points']) for e in events)
    rep.rule = ('one case = one measurement series: a class, a scalable input shape built from its shortest accepted corpus input '
                '(the input repeated; the input followed by / preceded by / split around a run of one of 12 filler patterns; length '
                'and count fields at offsets 0..9 set to 2^3..2^31 while the size stays) at sizes 256..%d; client hellos with 128..%d '
                'cipher suites incl. repeated signalling suites; work = sys.monitoring LINE events during parse_immutable (deterministic), '
                'depth = maximum Python call depth.' % (16384 if thorough else 4096, 8192 if thorough else 2048))
    rep.sample(events[0])
    rep.sample(events[-1])
    slim = [{'points': e['points'], 'history': bool(e.get('history'))} for e in events]
    traces = [slim[i:i + 2000] for i in range(0, len(slim), 2000)]
    for tup, ti, ei, _ in judge.run(rep, 'Trace_Growth', list(enumerate(traces)), 'growth'):
        e = events[ti * 2000 + ei]
        clause = tup[1]
        shape = e['shape'].split('@')[0]
        rep.violation('%s|%s|%s' % (e['cls'], clause, shape), '%s: %s on shape %s (%s)' % (
            e['cls'], clause, e['shape'], [(p['size'], p['steps']) for p in e['points']]), e)
    rep.assumptions += ['LINE event counts of CPython 3.12 stand for "interpreter-level steps"; Slack = 4000 events, DepthBound = 120 frames',
                        'only measured inputs are bounded: the check cannot bound unmeasured inputs (see DESIGN.md section 9)']


def replay(rep, path):
    run(rep)
