"""Verdict bookkeeping shared by all checks: violations, known findings, deviations, evidence."""
import hashlib
import json
import os
import random
import sys
import time

from . import tlc as tlcmod

VERIF = tlcmod.VERIF
BUILD = tlcmod.BUILD
FINDINGS_FILE = os.path.join(VERIF, 'known_findings.json')


def digest(obj):
    return hashlib.sha1(json.dumps(obj, sort_keys=True, default=repr).encode('utf-8')).hexdigest()[:16]


def load_findings():
    if not os.path.exists(FINDINGS_FILE):
        return {}
    with open(FINDINGS_FILE) as f:
        data = json.load(f)
    return {e['key']: e for e in data.get('findings', [])}


class Report(object):
    def __init__(self, prop, level, tier, seed):
        self.prop = prop
        self.level = level
        self.tier = tier
        self.seed = seed
        self.t0 = time.time()
        self.evaluations = 0
        self.distinct = set()
        self.samples = []
        self.states = 0
        self.transitions = 0
        self.traces = 0
        self.trace_lines = 0
        self.violations = {}      # key -> (text, case)
        self.violation_counts = {}
        self.deviations = {}
        self.deviation_counts = {}
        self.tlc_runs = []
        self.assumptions = []
        self.rule = ''
        self.extra = {}
        self.exhaustive = None
        self.build = os.path.join(BUILD, prop)
        os.makedirs(self.build, exist_ok=True)
        self.rng = random.Random(seed)

    # -- counting -----------------------------------------------------------------
    def case(self, key, nontrivial=True):
        self.evaluations += 1
        if nontrivial:
            self.distinct.add(key if isinstance(key, str) else digest(key))

    def sample(self, obj, limit=8):
        if len(self.samples) < limit:
            self.samples.append(obj)

    def add_tlc(self, res, what):
        self.states += res.distinct
        self.transitions += res.generated
        self.tlc_runs.append({'what': what, 'cmd': res.cmd, 'distinct_states': res.distinct,
                              'states_generated': res.generated, 'depth': res.depth,
                              'wall_s': round(res.wall, 2)})

    # -- verdicts -----------------------------------------------------------------
    def violation(self, key, text, case=None):
        key = '%s|%s' % (self.prop, key) if not key.startswith(self.prop + '|') else key
        self.violation_counts[key] = self.violation_counts.get(key, 0) + 1
        if key not in self.violations:
            self.violations[key] = (text, case)

    def deviation(self, key, text):
        self.deviation_counts[key] = self.deviation_counts.get(key, 0) + 1
        if key not in self.deviations:
            self.deviations[key] = text

    def machinery(self, text):
        print('MACHINERY-FAILURE property=%s %s' % (self.prop, text))
        sys.stdout.flush()
        sys.exit(2)

    # -- finish -------------------------------------------------------------------
    def finish(self):
        known = load_findings()
        new = 0
        known_hit = 0
        for key in sorted(self.violations):
            text, case = self.violations[key]
            n = self.violation_counts[key]
            if key in known:
                known_hit += 1
                print('KNOWN-FINDING: property=%s %s %s (x%d)' % (self.prop, key, known[key].get('text', text), n))
                continue
            new += 1
            rdir = os.path.join(VERIF, 'replays', self.prop)
            os.makedirs(rdir, exist_ok=True)
            path = os.path.join(rdir, hashlib.sha1(key.encode()).hexdigest()[:12] + '.json')
            with open(path, 'w') as f:
                json.dump({'property': self.prop, 'key': key, 'text': text, 'occurrences': n, 'seed': self.seed,
                           'tier': self.tier, 'case': case}, f, indent=1, default=repr)
            print('VIOLATION property=%s replay=%s key=%s %s (x%d)' % (self.prop, path, key, text, n))
        for key in sorted(self.deviations):
            print('DEVIATION property=%s %s %s (x%d)' % (self.prop, key, self.deviations[key], self.deviation_counts[key]))
        coverage = {
            'evaluations': self.evaluations,
            'distinct_nontrivial': len(self.distinct),
            'rule': self.rule,
            'samples': self.samples,
            'states': self.states,
            'transitions': self.transitions,
            'traces_validated_against_impl': self.traces,
            'trace_lines_validated': self.trace_lines,
            'tlc_runs': self.tlc_runs,
            'known_findings_hit': known_hit,
            'deviations': {k: self.deviation_counts[k] for k in sorted(self.deviations)},
        }
        if self.exhaustive is not None:
            coverage['exhaustive'] = self.exhaustive
        coverage.update(self.extra)
        ev = {
            'property_id': self.prop,
            'tier': self.tier,
            'seed': self.seed,
            'level': self.level,
            'coverage': coverage,
            'assumptions': self.assumptions,
            'wall_s': round(time.time() - self.t0, 2),
            'violations': new,
        }
        problems = validate_evidence(ev)
        if problems:
            self.machinery('evidence does not validate: %s' % problems)
        os.makedirs(os.path.join(VERIF, 'evidence'), exist_ok=True)
        with open(os.path.join(VERIF, 'evidence', self.prop + '.json'), 'w') as f:
            json.dump(ev, f, indent=1, default=repr)
        print('%s: %s tier=%s seed=%s evaluations=%d distinct=%d tlc_states=%d traces=%d lines=%d '
              'violations=%d known=%d deviations=%d wall=%.1fs' % (
                  self.prop, 'FAIL' if new else 'ok', self.tier, self.seed, self.evaluations, len(self.distinct),
                  self.states, self.traces, self.trace_lines, new, known_hit, len(self.deviations),
                  time.time() - self.t0))
        sys.stdout.flush()
        return 1 if new else 0


def validate_evidence(ev):
    """Hand-written mirror of /root/.vp/EVIDENCE.schema.json (jsonschema is not in /venv)."""
    p = []
    for k in ('property_id', 'tier', 'seed', 'level', 'coverage', 'wall_s'):
        if k not in ev:
            p.append('missing ' + k)
    c = ev.get('coverage', {})
    lvl = ev.get('level')
    if lvl in ('exploration', 'fault_enumeration'):
        if not (c.get('evaluations', 0) >= 1 and c.get('distinct_nontrivial', 0) >= 2 and c.get('samples')
                and isinstance(c.get('rule'), str)):
            p.append('exploration keys')
    elif lvl == 'model_checking':
        if not (c.get('states', 0) >= 1 and c.get('transitions', 0) >= 1 and c.get('samples')
                and 'traces_validated_against_impl' in c):
            p.append('model_checking keys')
    return p


def write_ndjson(path, events):
    with open(path, 'w') as f:
        for e in events:
            f.write(json.dumps(e, separators=(',', ':')))
            f.write('\n')
    return path
