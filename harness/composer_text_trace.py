"""Harness-side recorder of the text composer engine: wraps the public ComposerText primitives from outside (no change to
/repo) and logs one event per outermost call on each composer instance, on its return - the error path included."""
import functools

EVENTS = []
LIMIT = [0]
_installed = []
_quiet = [0]
CAP = 2000000000           # TLC integers are 32 bit


def install():
    if _installed:
        return
    from cryptoparser.common import parse as P
    from cryptodatahub.common.types import CryptoDataEnumBase
    CT = P.ComposerText

    def intlike(v):
        return isinstance(v, int) and not isinstance(v, bool)

    def text_of(self, v):
        """what _compose_string_array appends for one item"""
        if isinstance(v, P.ParsableBaseNoABC):
            return list(bytes(v.compose()))
        return list(str(v).encode(self._encoding))            # pylint: disable=protected-access

    def wrap(name, describe):
        orig = getattr(CT, name)

        @functools.wraps(orig)
        def wrapper(self, *args, **kwargs):
            if _quiet[0] or getattr(self, '_verif_busy', False) or len(EVENTS) >= LIMIT[0]:
                return orig(self, *args, **kwargs)
            self._verif_busy = True                           # pylint: disable=protected-access
            before = bytes(self._composed)                    # pylint: disable=protected-access
            ev = {'name': name, 'det': False, 'text': [], 'items': [], 'sep': [], 'neg': False, 'n': 0, 'vals': [], 'kinds': [],
                  'b': False}
            _quiet[0] += 1
            try:
                describe(self, ev, args, kwargs)
            except Exception:  # pylint: disable=broad-except
                ev['det'] = False
            finally:
                _quiet[0] -= 1
            out = 'ok'
            try:
                return orig(self, *args, **kwargs)
            except Exception as e:  # pylint: disable=broad-except
                out = type(e).__name__
                raise
            finally:
                after = bytes(self._composed)                 # pylint: disable=protected-access
                app = after[len(before):]
                ev.update(out=out, len0=min(len(before), CAP), len1=min(len(after), CAP), prefix_same=after[:len(before)] == before,
                          app=list(app[:400]), applen=min(len(app), CAP))
                if len(app) > 400:
                    ev['det'] = False                          # long appends: the laws only
                EVENTS.append(ev)
                self._verif_busy = False                      # pylint: disable=protected-access
        setattr(CT, name, wrapper)
        _installed.append((name, orig))

    def arg(args, kwargs, i, key, default=None):
        return kwargs.get(key, args[i] if len(args) > i else default)

    def d_string(self, ev, a, k):
        v = arg(a, k, 0, 'value')
        if isinstance(v, str) and len(v) <= 300:
            ev.update(det=True, text=list(v.encode(self._encoding)))     # pylint: disable=protected-access

    def d_strings(self, ev, a, k):
        vs, sep = arg(a, k, 0, 'value'), arg(a, k, 1, 'separator', ',')
        if isinstance(vs, (list, tuple)) and len(vs) <= 60 and isinstance(sep, str):
            ev.update(det=True, items=[text_of(self, v) for v in vs], sep=list(sep.encode(self._encoding)))   # pylint: disable=protected-access

    def d_numeric(self, ev, a, k):
        v = arg(a, k, 0, 'value')
        if intlike(v) and abs(v) < CAP:
            ev.update(det=True, neg=v < 0, n=abs(int(v)))

    def d_numbers(self, ev, a, k):
        vs, sep = arg(a, k, 0, 'values'), arg(a, k, 1, 'separator')
        if isinstance(vs, (list, tuple)) and len(vs) <= 60 and all(intlike(v) and abs(v) < CAP for v in vs) and isinstance(sep, str):
            ev.update(det=True, vals=[{'neg': v < 0, 'n': abs(int(v))} for v in vs], sep=list(sep.encode(self._encoding)))   # pylint: disable=protected-access

    def d_bool(self, ev, a, k):
        v = arg(a, k, 0, 'value')
        ev.update(det=True, b=bool(v))

    def d_parsables(self, ev, a, k):
        vs, sep, fb = arg(a, k, 0, 'values'), arg(a, k, 1, 'separator', ','), arg(a, k, 2, 'fallback_class')
        if not (isinstance(vs, (list, tuple)) and len(vs) <= 60 and isinstance(sep, str)):
            return
        kinds, texts = [], []
        for v in vs:
            if isinstance(v, (P.ComposerBase, P.ParsableBase, P.ParsableBaseNoABC)):
                kinds.append('ok')
                texts.append(list(bytes(v.compose())))
            elif isinstance(v, CryptoDataEnumBase):
                kinds.append('ok')
                texts.append(list(v.value.code.encode(self._encoding)))    # pylint: disable=protected-access
            elif fb is not None and isinstance(v, fb):
                kinds.append('ok')
                texts.append(list(v.encode(self._encoding) if isinstance(v, str) else bytes(v)))   # pylint: disable=protected-access
            else:
                kinds.append('bad')
                texts.append([])
        ev.update(det=True, kinds=kinds, items=texts, sep=list(sep.encode(self._encoding)))   # pylint: disable=protected-access

    wrap('compose_string', d_string)
    wrap('compose_separator', d_string)
    wrap('compose_string_array', d_strings)
    wrap('compose_numeric', d_numeric)
    wrap('compose_numeric_array', d_numbers)
    wrap('compose_bool', d_bool)
    wrap('compose_parsable_array', d_parsables)
    for other in ('compose_parsable', 'compose_date_time', 'compose_time_delta'):
        wrap(other, lambda self, ev, a, k: None)


def uninstall():
    from cryptoparser.common import parse as P
    for name, orig in reversed(_installed):
        setattr(P.ComposerText, name, orig)
    del _installed[:]
