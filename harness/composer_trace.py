"""Harness-side recorder of the binary composer engine: wraps the public ComposerBinary primitives from outside (no change
to /repo) and logs one event per outermost call on each composer instance, on its return - the error path included."""
import functools

EVENTS = []
LIMIT = [0]
_installed = []
ORDERS = {}


def digits(n):
    out = []
    while n:
        out.append(n & 0xff)
        n >>= 8
    return out[::-1]


def install():
    if _installed:
        return
    from cryptoparser.common import parse as P
    CB = P.ComposerBinary
    ORDERS.update({P.ByteOrder.NETWORK: '!', P.ByteOrder.BIG_ENDIAN: '>', P.ByteOrder.LITTLE_ENDIAN: '<', P.ByteOrder.NATIVE: '='})

    def intlike(v):
        return isinstance(v, int) and not isinstance(v, bool)

    def wrap(name, describe):
        orig = getattr(CB, name)

        @functools.wraps(orig)
        def wrapper(self, *args, **kwargs):
            if getattr(self, '_verif_busy', False) or len(EVENTS) >= LIMIT[0]:
                return orig(self, *args, **kwargs)
            object.__setattr__(self, '_verif_busy', True)
            before = bytes(self._composed)                    # pylint: disable=protected-access
            ev = {'name': name, 'det': False, 'order': ORDERS.get(self.byte_order, '?'), 'd': [], 'ds': [], 'w': 0, 'neg': False,
                  'body': [], 'blen': [], 'n': 0}
            try:
                describe(ev, args, kwargs)
            except Exception:  # pylint: disable=broad-except
                ev['det'] = False
            out = 'ok'
            try:
                return orig(self, *args, **kwargs)
            except Exception as e:  # pylint: disable=broad-except
                out = type(e).__name__
                raise
            finally:
                after = bytes(self._composed)                 # pylint: disable=protected-access
                app = after[len(before):]
                cap = 2000000000           # TLC integers are 32 bit
                ev.update(out=out, len0=min(len(before), cap), len1=min(len(after), cap), prefix_same=after[:len(before)] == before,
                          app=list(app[:400]), applen=min(len(app), cap))
                if len(app) > 400:
                    ev['det'] = False                          # long appends: the laws only
                EVENTS.append(ev)
                object.__setattr__(self, '_verif_busy', False)
        setattr(CB, name, wrapper)
        _installed.append((name, orig))

    def arg(args, kwargs, i, key, default=None):
        return kwargs.get(key, args[i] if len(args) > i else default)

    def d_numeric(ev, a, k):
        v, w = arg(a, k, 0, 'value'), arg(a, k, 1, 'size')
        if intlike(v) and intlike(w):
            ev.update(det=True, w=w, neg=v < 0, d=digits(abs(int(v))))

    def d_array(ev, a, k):
        vs, w = arg(a, k, 0, 'values'), arg(a, k, 1, 'item_size')
        if isinstance(vs, (list, tuple)) and len(vs) <= 100 and all(intlike(v) and v >= 0 for v in vs) and intlike(w):
            ev.update(det=True, w=w, ds=[digits(int(v)) for v in vs])

    def d_bytes(ev, a, k):
        v, w = arg(a, k, 0, 'value'), arg(a, k, 1, 'item_size')
        conv = arg(a, k, 2, 'converter', bytearray)
        if isinstance(v, (bytes, bytearray)) and conv is bytearray and intlike(w) and len(v) <= 300:
            ev.update(det=True, w=w, body=list(v), blen=digits(len(v)))

    def d_raw(ev, a, k):
        v = arg(a, k, 0, 'value')
        if isinstance(v, (bytes, bytearray)) and len(v) <= 300:
            ev.update(det=True, body=list(v))

    def d_string(ev, a, k):
        v, enc, w = arg(a, k, 0, 'value'), arg(a, k, 1, 'encoding'), arg(a, k, 2, 'item_size')
        if isinstance(v, str) and enc in ('ascii', 'utf-8', 'utf8') and intlike(w) and len(v) <= 300:
            try:
                b = v.encode(enc)
            except UnicodeError:
                return
            ev.update(det=True, w=w, body=list(b), blen=digits(len(b)))

    def d_nul(ev, a, k):
        v, enc = arg(a, k, 0, 'value'), arg(a, k, 1, 'encoding')
        if isinstance(v, str) and enc in ('ascii', 'utf-8') and len(v) <= 300:
            try:
                ev.update(det=True, body=list(v.encode(enc)))
            except UnicodeError:
                return

    def d_sshmp(ev, a, k):
        v = arg(a, k, 0, 'value')
        if intlike(v) and abs(v).bit_length() <= 2400:
            ev.update(det=True, neg=v < 0, d=digits(abs(int(v))))

    def d_mp(ev, a, k):
        v, n = arg(a, k, 0, 'value'), arg(a, k, 1, 'length')
        if intlike(v) and v >= 0 and intlike(n) and 0 <= n <= 400:
            ev.update(det=True, d=digits(int(v)), n=n)

    wrap('compose_numeric', d_numeric)
    wrap('compose_numeric_array', d_array)
    wrap('compose_bytes', d_bytes)
    wrap('compose_raw', d_raw)
    wrap('compose_string', d_string)
    wrap('compose_string_null_terminated', d_nul)
    wrap('compose_ssh_mpint', d_sshmp)
    wrap('compose_mpint', d_mp)
    for other in ('compose_numeric_enum_coded', 'compose_numeric_array_enum_coded', 'compose_numeric_flags', 'compose_timestamp',
                  'compose_parsable', 'compose_parsable_array', 'compose_string_enum_coded'):
        wrap(other, lambda ev, a, k: None)


def uninstall():
    from cryptoparser.common import parse as P
    for name, orig in reversed(_installed):
        setattr(P.ComposerBinary, name, orig)
    del _installed[:]
