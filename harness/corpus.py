"""Accepted inputs harvested from the repository's own tests (rebuilt when /repo changes)."""
import hashlib
import importlib
import json
import os
import pkgutil
import subprocess
import sys

from .tlc import BUILD, VERIF

REPO = os.environ.get('VERIF_REPO', '/repo')


def repo_hash():
    h = hashlib.sha1()
    for top in ('cryptoparser', 'test'):
        for root, dirs, files in os.walk(os.path.join(REPO, top)):
            dirs.sort()
            for fn in sorted(files):
                if fn.endswith('.py'):
                    p = os.path.join(root, fn)
                    h.update(p.encode())
                    with open(p, 'rb') as f:
                        h.update(f.read())
    return h.hexdigest()[:16]


def harvest():
    """Returns list of (qualified class name, bytes, entry point)."""
    os.makedirs(os.path.join(BUILD, 'corpus'), exist_ok=True)
    path = os.path.join(BUILD, 'corpus', repo_hash() + '.json')
    if not os.path.exists(path):
        env = dict(os.environ, CORPUS_OUT=path, PYTHONPATH=VERIF + ':' + REPO, PYTHONHASHSEED='0')
        subprocess.run([sys.executable, '-m', 'pytest', '-q', '--no-header', '-p', 'harness.corpus_plugin',
                        '-p', 'no:cacheprovider', '--timeout=900', 'test'], cwd=REPO, env=env,
                       stdout=subprocess.PIPE, stderr=subprocess.STDOUT, timeout=600)
        if not os.path.exists(path):
            raise RuntimeError('corpus harvest failed')
    with open(path) as f:
        return [(c, bytes(b), e) for c, b, e in json.load(f)]


def import_all():
    import cryptoparser
    mods = []
    for m in pkgutil.walk_packages(cryptoparser.__path__, 'cryptoparser.'):
        mods.append(importlib.import_module(m.name))
    return mods


def resolve(qual):
    mod, _, name = qual.rpartition('.')
    # nested qualnames (Outer.Inner) are rare; walk
    parts = qual.split('.')
    for i in range(len(parts) - 1, 0, -1):
        try:
            obj = importlib.import_module('.'.join(parts[:i]))
        except ImportError:
            continue
        for p in parts[i:]:
            obj = getattr(obj, p)
        return obj
    raise ImportError(qual)


def by_class(only_library=True):
    """dict: class object -> list of accepted byte strings (deduplicated, order of first use)."""
    res = {}
    for qual, data, _ in harvest():
        if only_library and not qual.startswith('cryptoparser.'):
            continue
        try:
            cls = resolve(qual)
        except Exception:  # pylint: disable=broad-except
            continue
        res.setdefault(cls, [])
        if data not in res[cls]:
            res[cls].append(data)
    if only_library:
        _add_containers(res)
    return res


def _add_containers(res):
    """every item class that has an accepted input, once INSIDE each list class that holds such items (a server name inside an
    extension list, a key share entry inside its vector): the test vectors hold most items on their own only, and a list engine
    sizes, dispatches and falls back in ways the item class alone never shows"""
    import inspect
    from cryptoparser.common.base import ArrayBase
    for vcls in sorted(all_subclasses(ArrayBase), key=lambda c: c.__module__ + '.' + c.__qualname__):
        if not vcls.__module__.startswith('cryptoparser.') or inspect.isabstract(vcls):
            continue
        try:
            item_class = vcls.get_param().item_class
        except Exception:  # pylint: disable=broad-except
            continue
        try:
            alts = list(item_class._get_variant_types())          # pylint: disable=protected-access
        except Exception:  # pylint: disable=broad-except
            alts = [item_class]
        for alt in alts:
            for seed in list(res.get(alt, []))[:2]:
                try:
                    item = alt.parse_exact_size(seed)
                    wire = bytes(vcls([item]).compose())
                    vcls.parse_exact_size(wire)
                except Exception:  # pylint: disable=broad-except
                    continue
                if len(wire) <= 1200 and wire not in res.setdefault(vcls, []):
                    res[vcls].append(wire)


def all_subclasses(base):
    seen, todo = [], [base]
    while todo:
        c = todo.pop()
        for s in c.__subclasses__():
            if s not in seen:
                seen.append(s)
                todo.append(s)
    return seen


def concrete_parsables():
    import inspect
    from cryptoparser.common.parse import ParsableBaseNoABC
    import_all()
    res = []
    for c in all_subclasses(ParsableBaseNoABC):
        if not c.__module__.startswith('cryptoparser.'):
            continue
        if inspect.isabstract(c):
            continue
        res.append(c)
    res.sort(key=lambda c: c.__module__ + '.' + c.__qualname__)
    return res
