"""pytest plugin (harness side, no change to /repo): records every (class, bytes) pair that the
library's three parse entry points ACCEPT while the repository's own tests run.  Nested parses
are recorded too, each with the bytes it consumed."""
import json
import os

_seen = {}
_order = []


def _qual(cls):
    return cls.__module__ + '.' + cls.__qualname__


def _install():
    from cryptoparser.common import parse as P
    base = P.ParsableBaseNoABC

    def wrap(name):
        orig = getattr(base, name).__func__

        def wrapper(cls, parsable):
            try:
                data = bytes(parsable)
            except Exception:  # pylint: disable=broad-except
                data = None
            result = orig(cls, parsable)
            try:
                if data is not None:
                    if name == 'parse_immutable':
                        data = data[:result[1]]
                    elif name == 'parse_mutable':
                        data = data[:len(data) - len(parsable)]
                    key = (_qual(cls), data)
                    if key not in _seen and len(data) <= 20000:
                        _seen[key] = name
                        _order.append(key)
            except Exception:  # pylint: disable=broad-except
                pass
            return result
        wrapper.__name__ = name
        setattr(base, name, classmethod(wrapper))
    for n in ('parse_exact_size', 'parse_immutable', 'parse_mutable'):
        wrap(n)


_install()


def pytest_sessionfinish(session, exitstatus):  # pylint: disable=unused-argument
    out = os.environ.get('CORPUS_OUT')
    if out:
        with open(out, 'w') as f:
            json.dump([[k[0], list(k[1]), _seen[k]] for k in _order], f)
