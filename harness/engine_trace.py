"""Harness-side recorder of the binary engine: wraps the public ParserBinary primitives (no change to /repo) and logs one
event per outermost call on each parser instance, on its return - the error path included."""
import functools

EVENTS = []
LIMIT = [0]
_installed = []
CAP = 2000000000


def _c(v):
    if isinstance(v, bool) or not isinstance(v, int):
        return -1
    return max(min(v, CAP), -CAP)


def install():
    if _installed:
        return
    from cryptoparser.common import parse as P
    from cryptoparser.common.exception import NotEnoughData
    PB = P.ParserBinary
    big_orders = (P.ByteOrder.BIG_ENDIAN, P.ByteOrder.NETWORK)

    def wrap(name, describe):
        orig = getattr(PB, name)

        @functools.wraps(orig)
        def wrapper(self, *args, **kwargs):
            if getattr(self, '_verif_busy', False) or len(EVENTS) >= LIMIT[0]:
                return orig(self, *args, **kwargs)
            object.__setattr__(self, '_verif_busy', True)
            pos0 = self._parsed_length          # pylint: disable=protected-access
            data = self._parsable               # pylint: disable=protected-access
            ev = {'name': name, 'pos0': pos0, 'len': len(data), 'w': 0, 'count': 0, 'size': 0,
                  'big': self.byte_order in big_orders, 'hdr': list(data[pos0:pos0 + 8]) + [0] * max(0, 8 - len(data[pos0:pos0 + 8])), 'nulat': -1}
            try:
                describe(ev, self, args, kwargs)
            except Exception:  # pylint: disable=broad-except
                ev['name'] = name + '?'
            out, need = 'ok', 0
            try:
                return orig(self, *args, **kwargs)
            except NotEnoughData as e:
                out, need = 'NotEnoughData', _c(e.bytes_needed)
                raise
            except Exception as e:  # pylint: disable=broad-except
                out = type(e).__name__
                raise
            finally:
                ev['out'], ev['need'], ev['pos1'] = out, need, _c(self._parsed_length)    # pylint: disable=protected-access
                EVENTS.append(ev)
                object.__setattr__(self, '_verif_busy', False)
        setattr(PB, name, wrapper)
        _installed.append((name, orig))

    def arg(args, kwargs, i, key, default=None):
        return kwargs.get(key, args[i] if len(args) > i else default)

    wrap('parse_numeric', lambda ev, s, a, k: ev.update(w=_c(arg(a, k, 1, 'size'))))
    wrap('parse_numeric_array', lambda ev, s, a, k: ev.update(count=_c(arg(a, k, 1, 'item_num')), w=_c(arg(a, k, 2, 'item_size'))))
    wrap('parse_numeric_flags', lambda ev, s, a, k: ev.update(w=_c(arg(a, k, 1, 'size'))))
    wrap('parse_timestamp', lambda ev, s, a, k: ev.update(w=_c(arg(a, k, 2, 'item_size', 8))))
    wrap('parse_raw', lambda ev, s, a, k: ev.update(size=_c(arg(a, k, 1, 'size'))))
    wrap('parse_bytes', lambda ev, s, a, k: ev.update(w=_c(arg(a, k, 1, 'size'))))
    wrap('parse_string', lambda ev, s, a, k: ev.update(w=_c(arg(a, k, 1, 'item_size'))))
    wrap('parse_mpint', lambda ev, s, a, k: ev.update(size=_c(arg(a, k, 1, 'mpint_length'))))
    wrap('parse_ssh_mpint', lambda ev, s, a, k: None)
    wrap('parse_string_null_terminated', lambda ev, s, a, k: ev.update(nulat=bytes(s._parsable[s._parsed_length:]).find(b'\x00')))  # pylint: disable=protected-access
    wrap('parse_parsable_array', lambda ev, s, a, k: ev.update(size=_c(arg(a, k, 1, 'items_size'))))
    wrap('parse_parsable_derived_array', lambda ev, s, a, k: ev.update(size=_c(arg(a, k, 1, 'items_size'))))
    wrap('parse_parsable_list', lambda ev, s, a, k: None)
    wrap('parse_variant', lambda ev, s, a, k: None)

    def describe_parsable(ev, s, a, k):
        isz = arg(a, k, 2, 'item_size')
        if isz is not None:
            ev['name'] = 'parse_parsable_sized'
            ev['w'] = _c(isz)
    # parse_parsable is defined on ParserBase: wrap it on ParserBinary only
    orig_pp = P.ParserBase.parse_parsable

    def pp(self, *args, **kwargs):
        return orig_pp(self, *args, **kwargs)
    PB.parse_parsable = pp
    wrap('parse_parsable', describe_parsable)


def uninstall():
    from cryptoparser.common import parse as P
    for name, orig in reversed(_installed):
        if name == 'parse_parsable':
            try:
                delattr(P.ParserBinary, 'parse_parsable')
            except AttributeError:
                pass
        else:
            setattr(P.ParserBinary, name, orig)
    del _installed[:]
