"""Real framing units: (unit name, parse class, list of valid frames as bytes), built through the
library's own composers from corpus objects and synthesised payloads."""
from . import corpus


def _recompose(cls, datas):
    out = []
    for d in datas:
        try:
            obj, n = cls.parse_immutable(d)
            b = bytes(obj.compose())
            obj2, n2 = cls.parse_immutable(b)
            if n2 == len(b) and b not in out:
                out.append(b)
        except Exception:  # pylint: disable=broad-except
            continue
    return out


def units(rng, big=False):
    """returns list of dicts {unit, cls, frames (bytes list), in_c04}"""
    from cryptoparser.tls import record as R, subprotocol as S, mysql as M, rdp as D, openvpn as O, ldap as L, \
        postgresql as P
    from cryptoparser.ssh import record as SR, subprotocol as SS
    lib = corpus.by_class()
    res = []

    def rb(n):
        return bytes(rng.randrange(256) for _ in range(n))

    # TLS records: every content type, payload lengths around the interesting sizes
    frames = []
    for ct in S.TlsContentType:
        for n in (0, 1, 2, 7, 31, 255, 256) + ((16384, 65535) if big else ()):
            frames.append(bytes(R.TlsRecord(fragment=rb(n), content_type=ct).compose()))
    res.append(dict(unit='TlsRecord', cls=R.TlsRecord, frames=frames, c04=True))
    ssl = _recompose(R.SslRecord, lib.get(R.SslRecord, []))
    for cls, datas in lib.items():
        if isinstance(cls, type) and issubclass(cls, S.SslMessageBase):
            for d in datas:
                try:
                    ssl.append(bytes(R.SslRecord(message=cls.parse_exact_size(d)).compose()))
                except Exception:  # pylint: disable=broad-except
                    pass
    ssl = _recompose(R.SslRecord, list(dict.fromkeys(ssl)))
    # the three-byte-header form (14-bit length that covers the padding) of the same records, and records at the
    # 14/15-bit limits of the two header forms
    padded = []
    for f in ssl[:12]:
        body = f[2:]
        for pad in (0, 1, 7):
            ln = len(body) + pad
            if ln < 16384:
                padded.append(bytes([ln >> 8, ln & 0xff, pad]) + body + bytes(pad))
    try:
        from cryptoparser.tls.ciphersuite import SslCipherKind
        for n in (16383 - 11, 16384 - 11, 20000) + ((32767 - 14,) if big else ()):
            ssl.append(bytes(R.SslRecord(message=S.SslHandshakeServerHello(
                certificate=bytes(i * 7 & 0xff for i in range(n)), cipher_kinds=list(SslCipherKind)[:1], connection_id=b'')).compose()))
    except Exception:  # pylint: disable=broad-except
        pass
    # `must`: frames whose conformance does not rest on the library accepting them (TlsWire.EncSsl2Padded, checked in C06)
    res.append(dict(unit='SslRecord', cls=R.SslRecord, frames=list(dict.fromkeys(ssl + padded)), c04=True, must=set(padded)))
    # handshake messages of every class with corpus entries, parsed through the variant and through the class
    hs = []
    for cls, datas in lib.items():
        if isinstance(cls, type) and issubclass(cls, S.TlsHandshakeMessage):
            hs += _recompose(cls, datas)
    hs = [f for f in dict.fromkeys(hs)]
    ok = []
    for f in hs:
        try:
            _, n = S.TlsHandshakeMessageVariant.parse_immutable(f)
            if n == len(f):
                ok.append(f)
        except Exception:  # pylint: disable=broad-except
            pass
    res.append(dict(unit='TlsHandshake', cls=S.TlsHandshakeMessageVariant, frames=ok, c04=True))
    for cls in (SR.SshRecordInit, SR.SshRecordKexDH, SR.SshRecordKexDHGroup):
        ssh = list(lib.get(cls, []))
        for mcls, datas in lib.items():
            if isinstance(mcls, type) and issubclass(mcls, SS.SshMessageBase):
                for d in datas:
                    try:
                        ssh.append(bytes(cls(packet=mcls.parse_exact_size(d)).compose()))
                    except Exception:  # pylint: disable=broad-except
                        pass
        res.append(dict(unit='SshBinaryPacket', cls=cls, frames=_recompose(cls, list(dict.fromkeys(ssh))), c04=True))
    res.append(dict(unit='SshBanner', cls=SS.SshProtocolMessage,
                    frames=_recompose(SS.SshProtocolMessage, lib.get(SS.SshProtocolMessage, [])), c04=False))
    frames = [bytes(M.MySQLRecord(packet_number=rng.randrange(256), packet_bytes=rb(n)).compose())
              for n in (0, 1, 2, 5, 77, 255, 256, 300) + ((70000,) if big else ())]
    res.append(dict(unit='MySQLRecord', cls=M.MySQLRecord, frames=frames, c04=True))
    frames = [bytes(D.TPKT(version=3, message=rb(n)).compose()) for n in (0, 1, 2, 5, 19, 252, 300) + ((65000,) if big else ())]
    res.append(dict(unit='TPKT', cls=D.TPKT, frames=frames, c04=True))
    for cls in (D.COTPConnectionRequest, D.COTPConnectionConfirm):
        frames = [bytes(cls(src_ref=rng.randrange(65536), dst_ref=rng.randrange(65536), class_option=0,
                            user_data=rb(n)).compose()) for n in (0, 1, 8, 40, 200)]
        res.append(dict(unit='COTP', cls=cls, frames=frames, c04=True))
    frames = [bytes(O.OpenVpnPacketWrapperTcp(rb(n)).compose()) for n in (0, 1, 2, 14, 26, 300) + ((65535,) if big else ())]
    res.append(dict(unit='OpenVpnTcp', cls=O.OpenVpnPacketWrapperTcp, frames=frames, c04=True))
    frames = [bytes(L.LDAPExtendedRequestStartTLS().compose())]
    res.append(dict(unit='LdapMessage', cls=L.LDAPExtendedRequestStartTLS, frames=frames, c04=True))
    frames = [bytes(L.LDAPExtendedResponseStartTLS(rc).compose()) for rc in list(L.LDAPResultCode)[:6]]
    frames += _recompose(L.LDAPExtendedResponseStartTLS, lib.get(L.LDAPExtendedResponseStartTLS, []))
    res.append(dict(unit='LdapMessage', cls=L.LDAPExtendedResponseStartTLS, frames=list(dict.fromkeys(frames)), c04=True))
    res.append(dict(unit='PgSslRequest', cls=P.SslRequest, frames=[bytes(P.SslRequest().compose())], c04=True))
    res.append(dict(unit='PgSync', cls=P.Sync, frames=[bytes(P.Sync().compose())], c04=True))
    return [u for u in res if u['frames']]


def sender_probes():
    """(unit, class name, payload size, thunk): records whose payload is just below / at / above what the length field
    of the layer can express"""
    from cryptoparser.tls import record as R, subprotocol as S, mysql as M, rdp as D, openvpn as O
    from cryptoparser.tls.ciphersuite import SslCipherKind
    out = []
    for n in (2 ** 24 - 1, 2 ** 24, 2 ** 24 + 1, 2 ** 24 + 256):
        out.append(('MySQLRecord', 'MySQLRecord', n, lambda n=n: M.MySQLRecord(packet_number=1, packet_bytes=bytes(n)).compose()))
    for n in (65535 - 4, 65536 - 4, 65537 - 4, 65536 + 252):
        out.append(('TPKT', 'TPKT', n, lambda n=n: D.TPKT(version=3, message=bytes(n)).compose()))
    for n in (65535, 65536, 65537, 65536 + 256):
        out.append(('OpenVpnTcp', 'OpenVpnPacketWrapperTcp', n, lambda n=n: O.OpenVpnPacketWrapperTcp(bytes(n)).compose()))
        out.append(('TlsRecord', 'TlsRecord', n, lambda n=n: R.TlsRecord(fragment=bytes(n), content_type=S.TlsContentType.APPLICATION_DATA).compose()))
    for n in (32767 - 12, 32768 - 12, 32769 - 12, 32768 + 256):
        out.append(('SslRecord', 'SslRecord', n, lambda n=n: R.SslRecord(message=S.SslHandshakeServerHello(
            certificate=bytes(n), cipher_kinds=list(SslCipherKind)[:1], connection_id=b'')).compose()))
    for n in (2 ** 24 - 7, 2 ** 24 - 6, 2 ** 24 + 1):
        def hs(n=n):
            from cryptoparser.tls.subprotocol import TlsHandshakeCertificate, TlsCertificate, TlsCertificates
            return TlsHandshakeCertificate(TlsCertificates([TlsCertificate(bytes(n))])).compose()
        out.append(('TlsHandshake', 'TlsHandshakeCertificate', n, hs))
    return out
