"""Validate recorded traces with a Trace_* specification, sharded over several JVMs."""
import os
from concurrent.futures import ThreadPoolExecutor

from . import tlc
from .common import write_ndjson


def shard(traces, nshards, max_lines):
    """traces: list of lists of events.  Returns list of shards (lists of traces), balanced by lines."""
    total = sum(len(t) for t in traces)
    n = max(1, min(nshards, (total + max_lines - 1) // max_lines if max_lines else nshards))
    n = max(n, min(nshards, total // 4000 + 1))
    shards = [[] for _ in range(n)]
    sizes = [0] * n
    for t in traces:
        i = sizes.index(min(sizes))
        shards[i].append(t)
        sizes[i] += len(t)
    return [s for s in shards if s]


def run(rep, module, traces, what, tags=('BAD', 'DEV'), nshards=14, max_lines=15000, timeout=1800, cfg=None,
        extra_env=None):
    """Returns list of (tag, fields..., trace_index, event_index_in_trace, event) for every printed verdict;
    the line number printed by the spec must be the LAST-BUT-ONE... convention: 3rd element = line."""
    shards = shard(traces, nshards, max_lines)
    jobs = []
    for i, sh in enumerate(shards):
        events = []
        index = []
        for ti, t in sh:
            for ei, e in enumerate(t):
                events.append(e)
                index.append((ti, ei))
        path = write_ndjson(os.path.join(rep.build, '%s.%d.ndjson' % (what, i)), events)
        jobs.append((path, events, index))

    def one(job):
        env = {'TRACE_FILE': job[0]}
        if extra_env:
            env.update(extra_env)
        return tlc.run(module, cfg or module, workers=1, env=env, timeout=timeout, tag=what)
    with ThreadPoolExecutor(max_workers=min(len(jobs), 14) or 1) as ex:
        results = list(ex.map(one, jobs))
    verdicts = []
    for (path, events, index), res in zip(jobs, results):
        if not res.finished or res.errors:
            raise tlc.TlcError('%s (%s) did not consume %s:\n%s' % (module, what, path, res.out[-2500:]))
        rep.add_tlc(res, '%s %s shard' % (module, what))
        rep.trace_lines += len(events)
        for tag in tags:
            for s in res.prints(tag):
                tup = tlc.parse_tla_tuple(s)
                line = tup[2]
                ti, ei = index[line - 1]
                verdicts.append((tup, ti, ei, events[line - 1]))
    rep.traces += len(traces)
    return verdicts
