"""Single source of MANIFEST.json: python -m harness.manifest rewrites it."""
import json
import os

from .tlc import VERIF

CHECKS = {
    'C17': dict(
        category='model_checking',
        text='Exhaustive for the 38 defined versions: TLC evaluates the order axioms (irreflexive, trichotomous, '
             'transitive, ==/hash, derived operators, agreement with the rank stated in the property) on the complete '
             'comparison matrix recorded from TlsProtocolVersion, and explores every order of arrival of every subset '
             'of <=3 (thorough: <=4) versions in the arrival state machine instantiated with that matrix.',
        design_ref='6/C17',
        note='Trusted: VersionOps.MustLess as my reading of the order in the property text; the matrix recorder in '
             'harness/checks/c17.py; TLC. The relative order of Google experiments vs drafts is left open.',
        technique='TLA+ arrival state machine + order axioms, TLC exhaustive; trace validation of the recorded comparison matrix'),
}

NOT_APPLICABLE = {}


def build():
    checks = []
    for pid in sorted(CHECKS):
        c = CHECKS[pid]
        checks.append({
            'property_id': pid,
            'quick_cmd': './check %s --tier quick' % pid,
            'thorough_cmd': './check %s --tier thorough' % pid,
            'evidence_file': 'evidence/%s.json' % pid,
            'replay_cmd_template': './check %s --replay {path}' % pid,
            'engine': 'tlc',
            'level_claimed': {'category': c['category'], 'text': c['text'], 'design_ref': c['design_ref']},
            'level_note': c['note'],
            'technique': c['technique'],
        })
    props = [json.loads(l)['id'] for l in open(os.path.join(VERIF, 'properties.jsonl'))]
    na = []
    for pid in props:
        if pid not in CHECKS:
            na.append({'property_id': pid, 'reason': NOT_APPLICABLE.get(
                pid, 'check not built yet in this round (planned, see DESIGN.md section 6); not claimed')})
    return {
        'version': 1,
        'setup_cmd': 'make -C /verif setup',
        'hooks': {
            'guard': 'CRYPTOPARSER_VERIF',
            'enable': 'no source hooks: the harness wraps library methods from its own process when '
                      'CRYPTOPARSER_VERIF=1 (set by ./check); /venv imports /repo in editable mode, so every check '
                      'runs the current working tree',
            'baseline_off_cmd': 'cd /repo && /venv/bin/python -m pytest -q -p no:cacheprovider --timeout=900',
            'source_commits': [],
            'add_only': True,
        },
        'engines': [{'name': 'tlc', 'path': 'harness/tlc.py', 'serves_properties': sorted(CHECKS),
                     'kind_free_text': 'TLC 1.8 explicit-state model checker on the TLA+ modules in spec/, bound to '
                                       'the implementation by trace validation and replay (harness/)'}],
        'checks': checks,
        'not_applicable': na,
        'notes': 'See DESIGN.md. known_findings.json lists recorded defects and fix: commits.',
    }


if __name__ == '__main__':
    with open(os.path.join(VERIF, 'MANIFEST.json'), 'w') as f:
        json.dump(build(), f, indent=1)
    print('MANIFEST.json written: %d checks' % len(CHECKS))
