"""Single source of MANIFEST.json: python -m harness.manifest rewrites it."""
import json
import os

from .tlc import VERIF

CHECKS = {
    'C17': dict(
        category='model_checking',
        text='Exhaustive for the 38 defined versions: TLC evaluates the order axioms (irreflexive, trichotomous, '
             'transitive, ==/hash, derived operators, agreement with the rank stated in the property) on the complete '
             'comparison matrix recorded from TlsProtocolVersion, and explores every order of arrival of every subset '
             'of <=3 (thorough: <=4) versions in the arrival state machine instantiated with that matrix.',
        design_ref='6/C17',
        note='Trusted: VersionOps.MustLess as my reading of the order in the property text; the matrix recorder in '
             'harness/checks/c17.py; TLC. The relative order of Google experiments vs drafts is left open.',
        technique='TLA+ arrival state machine + order axioms, TLC exhaustive; trace validation of the recorded comparison matrix'),

    'C12': dict(
        category='model_checking',
        text='TLC checks that the as-coded model of ArrayBase (VectorImpl: tracked size, one action per primitive) '
             'refines the atomic intent (Vector) and keeps tracked = real size, for every edit sequence over 3 items and '
             'bounds 1..3; the pre-fix code shapes are kept as configurations that must be rejected. Binding: every '
             'transition of the intent model is chained into behaviours and replayed on real vectors with those bounds; '
             'random edit histories on all 43 vector classes of the library are validated line by line by Trace_Vector.',
        design_ref='6/C12',
        note='Trusted: PySeq (Python list semantics, cross-checked against a real list on every trace line), reference '
             'item sizes measured on real compose() output, the Tiny* replay subclasses; slices with step != 1 not generated.',
        technique='TLA+ refinement VectorImpl => Vector checked by TLC; replay of TLC-enumerated transitions; trace validation'),
    'C04': dict(
        category='model_checking',
        text='Stream.tla models peer, channel and reader loop; TLC explores every interleaving and every contract-conforming '
             'missing-byte count for 4 frames with chunks 1..3, lock-step and free peers, safety (NoOverAsk, FramesIntact, '
             'NoPrefixAccept) and liveness under weak fairness; over-asking and prefix-accepting parsers are rejected. The '
             'real reader loop over real composed frames of every record layer is run for every single cut position, sampled '
             'cut pairs, byte-wise and random schedules, and every proper prefix of every frame; Trace_Stream checks the '
             'contract and the invariant at every step.',
        design_ref='6/C04',
        note='Trusted: frame boundaries from compose(); Framing.DeclaredLen as my reading of the protocol documents; the '
             'harness reader loop mirrors Stream.ReaderTry (disagreement is a machinery failure).',
        technique='TLA+ Stream state machine, TLC safety+liveness; trace validation of the real reader loop'),
    'C03': dict(
        category='model_checking',
        text='ParseApi.tla states the contract of the three entry points; Framing.tla the declared frame lengths. Every '
             'accepted corpus input of every class and mutants of it are given to all three entry points and TLC validates '
             'each observation (consumed range, prefix removal, exact-size iff n = len, failure leaves the buffer, framing '
             'units self-delimiting with n = declared length).',
        design_ref='6/C03',
        note='Trusted: projection equality, DeclaredLen transcription. Exploration of inputs is finite (corpus + mutants).',
        technique='TLA+ contract (ParseApi, Framing) evaluated by TLC on recorded observations of the real entry points'),
    'C02': dict(
        category='exploration',
        text='Mutation fuzzing of every class that has an accepted corpus input (367 classes), all three entry points; TLC '
             'judges each observation against ParseApi.Outcome. Leaks are keyed by (exception type, innermost cryptoparser '
             'frame); the recorded ones are listed in known_findings.json.',
        design_ref='6/C02',
        note='Finite exploration; new inputs may reach leak sites not yet listed (they are then reported as violations).',
        technique='TLA+ outcome contract evaluated by TLC on traces of mutated inputs'),
    'C13': dict(
        category='model_checking',
        text='Heap.tla models objects, buffers and class defaults as memory cells with a ghost "expected value" per object; '
             'TLC checks Independent / Deterministic / FreshDefaults over all histories of <= 6 actions and rejects the three '
             'as-coded defect shapes (shared default, aliased input buffer, observer that does not undo a temporary edit). '
             'Behaviours of Heap.tla generated by TLC (-simulate) plus fixed ones are replayed on real objects of every class '
             'with an accepted corpus input (construct with defaults, edit every mutable part in turn, call every observer, '
             'parse from a bytearray and overwrite it); Trace_Heap checks non-interference at every step.',
        design_ref='6/C13',
        note='Trusted: projection digests as object state; random/time based defaults are masked when comparing a new '
             'object with the pristine default; edits reach containers and scalar attributes within 4 levels.',
        technique='TLA+ heap model checked by TLC; replay of TLC-generated histories on real objects; trace validation'),
    'C11': dict(
        category='model_checking',
        text='Prim.tla defines the primitives over digit strings (any size); TLC proves round trip / refusal / minimality of '
             'the reference for all values 0..70000 (both signs for mpints). The real ComposerBinary/ParserBinary are run on '
             'every 1- and 2-byte value in four byte orders (3-byte: all values in the thorough tier), boundary and '
             'out-of-range values of widths 1-8, all flags enums, mpints up to 4096 bits of both signs and timestamps under '
             '10-15 TZ settings; Trace_Prim compares every result with the reference.',
        design_ref='6/C11',
        note='Trusted: Prim.tla as the definition; native order taken as little endian; TZ switched with time.tzset().',
        technique='TLA+ reference primitives checked by TLC; trace validation of the real primitives (exhaustive for 8/16-bit spaces)'),
    'C10': dict(
        category='model_checking',
        text='Exhaustive over every 1- and 2-byte code space: each of the 2^8 / 2^16 values of every numeric enumeration is '
             'decoded alone and as the middle item of its list container(s); TLC checks the rules of CodePoint.tla (table '
             'injective up to protocol-assigned shared numbers, known code -> its member, unknown code preserved verbatim or '
             'rejected, nothing dropped or redirected in lists, re-encoding identical) on the complete outcome arrays. 3/4-byte '
             'and string-coded spaces: members, neighbours, near-miss names, samples; all Enum tables checked for aliases.',
        design_ref='6/C10',
        note='Trusted: the outcome classification in harness/checks/c10.py; allow-list of protocol-assigned shared numbers.',
        technique='TLA+ code point rules evaluated by TLC over exhaustive decode tables of the implementation'),
    'C01': dict(
        category='exploration',
        text='Every object parsed from the corpus, every nested parsable value, and field-by-field variations built through '
             'the class constructors (every enum member, boundary integers, empty/long strings and vectors, aware datetimes '
             'with offsets, optional fields) is composed and parsed back; TLC evaluates ParseApi.RoundTrip on every observation.',
        design_ref='6/C01',
        note='Finite exploration over constructible objects; equality = projection equality; objects whose compose() raises a '
             'documented error have no wire form. Recorded defects are listed in known_findings.json by (class, clause, field).',
        technique='TLA+ round-trip contract evaluated by TLC on traces of constructed objects'),
    'C05': dict(
        category='exploration',
        text='Every accepted corpus input, every accepted mutant of it and blind text respellings are parsed, composed, parsed '
             'and composed again; TLC evaluates ParseApi.Canonical (compose succeeds, canonical form accepted completely, same '
             'meaning, stable in one step) on every observation.',
        design_ref='6/C05',
        note='Finite exploration; recorded defects listed in known_findings.json by (class, clause).',
        technique='TLA+ canonical-form contract evaluated by TLC on traces of accepted inputs'),
    'C06': dict(
        category='model_checking',
        text='TlsWire.tla is an encoder written from the RFC presentation language (records, alert, CCS, handshake header, '
             'client/server hello with SCSV markers, certificate chain, 18 extension bodies, SSL 2.0 record/hello/error). '
             'S->C: TLC enumerates a domain of 8568 abstract client hellos with their prescribed bytes; each is built through the '
             'real constructors (compose must equal the bytes) and parsed (the field values must come back). C->S: corpus '
             'objects, constructor variations covering every enum member, and large random messages are composed by the '
             'library and TLC compares the bytes with Enc(abstract value).',
        design_ref='6/C06',
        note='Trusted: my transcription of the RFCs; harness/wire_tls.py (field values only, no layout). Structures not '
             'transcribed (certificate request, certificate status, SKE, HRR, NPN server, SCT) are reported as unmodelled.',
        technique='independent TLA+ reference encoder evaluated by TLC; replay of TLC-generated messages; trace validation'),
    'C15': dict(
        category='model_checking',
        text='Ja3.tla is the published algorithm as a byte-level walk over the hello. TLC computes the JA3 string for the 8160 '
             'constructible hellos of the generated domain and for corpus / varied / random hellos from their wire bytes; '
             'ja3() of the parsed message, a second call, and ja3() after compose+parse must all equal it. Disagreements are '
             'classified by TLC (GREASE cipher kept, SCSV omitted, other).',
        design_ref='6/C15',
        note='Trusted: my reading of the JA3 README; the two deviations pinned by the existing test literals are recorded findings.',
        technique='independent TLA+ reference (byte-level JA3) evaluated by TLC on generated and recorded hellos'),
    'C07': dict(
        category='model_checking',
        text='SshWire.tla encodes banner, KEXINIT, DH / group-exchange messages, disconnect and RSA/DSS/ECDSA/Ed25519 key blobs '
             'from RFC 4251/4253/4419/5656/8709 (name-lists, minimal mpints from Prim.tla, padding rule). TLC proves the padding '
             'rule for payload lengths 0..35000 and compares compose() of corpus objects, constructor variations, keys at boundary '
             'bit lengths and random KEXINITs with the reference; real packets are composed for payload lengths 5..35000.',
        design_ref='6/C07',
        note='Trusted: my transcription of the RFCs; harness/wire_ssh.py. OpenSSH certificate layouts are not transcribed.',
        technique='independent TLA+ reference encoder evaluated by TLC on recorded and generated SSH objects'),
    'C16': dict(
        category='model_checking',
        text='TLC extracts the HASSH name-lists from the KEXINIT wire bytes (SshWire.HasshClientPreimage/ServerPreimage) and '
             'rebuilds the RFC 4253 key blob from key parameters; the harness applies hashlib / base64 to those and compares with '
             'hassh, hassh_server, fingerprints and known_hosts. KEXINITs over random ordered lists of known/unknown names incl. '
             'empty lists; keys at boundary bit lengths.',
        design_ref='6/C16',
        note='Trusted: hashlib, base64; the rendering rules (prefix, colon, base64 / colon-separated hex) are applied by the harness.',
        technique='independent TLA+ reference (wire-level preimage and key blob) evaluated by TLC; digests by hashlib'),
    'C08': dict(
        category='model_checking',
        text='DnsWire.tla encodes DNSKEY (RSA both exponent-length forms, DSA, ECDSA, GOST, EdDSA), DS, RRSIG, MX, TXT and '
             'uncompressed names from RFC 1035/2536/3110/4034/6605/8080, and the key tag of RFC 4034 Appendix B / B.1 over the '
             'RDATA bytes. TLC checks the fold lemma on small strings and compares compose() / key_tag of corpus records, '
             'constructor variations and generated keys (odd and even RDATA lengths) with the reference; conformant RDATA '
             'assembled from raw key material (Ed448 = 57 octets) is fed to the parser.',
        design_ref='6/C08',
        note='Trusted: my transcription of the RFCs; harness/wire_dns.py. Two recorded findings are pinned by existing tests '
             '(odd-length key tag, Ed448 key of 56 octets).',
        technique='independent TLA+ reference encoder and key tag evaluated by TLC on recorded and generated records'),
    'C09': dict(
        category='model_checking',
        text='StartTlsWire.tla encodes the MySQL packet / HandshakeV10 / SSLRequest, TPKT, X.224 CR/CC, RDP_NEG_REQ/RSP, OpenVPN '
             'control packets and TCP wrapper, PostgreSQL SSLRequest and the LDAP StartTLS messages (DER) from their protocol '
             'documents. TLC compares compose() of corpus objects, field variations and generated messages (flag subsets, '
             'auth-plugin data lengths, 0..255 acknowledgements, every LDAP result code) with the reference, checks that parsing '
             'gives the values back and that the parsed object has the message type that is on the wire, also when request '
             'bytes are given to the confirm/response class and vice versa.',
        design_ref='6/C09',
        note='Trusted: my transcription of the protocol documents; harness/wire_starttls.py; native order = little endian.',
        technique='independent TLA+ reference encoder evaluated by TLC on recorded and generated messages'),
    'C14': dict(
        category='model_checking',
        text='Serialize.tla models the serialisation state (label cache, encoder slot, set iteration order chosen by the hash '
             'seed); TLC proves Deterministic over all histories, restarts and set orders and rejects the two as-coded defect '
             'shapes (cache keyed by field name, unsorted sets). Implementation: the same deterministic list of objects (all '
             'corpus classes, field variations, non-Serializable values inside a result object) is serialised twice as JSON and '
             'Markdown in 4-5 fresh processes that differ in PYTHONHASHSEED and serialisation order, and after a compose/parse '
             'round trip; Trace_Serialize checks totality, well-formedness, repeatability and equality across environments.',
        design_ref='6/C14',
        note='Trusted: json.loads as the standard JSON parser (TLC\'s Json module rejects null); faithfulness of the rendering '
             'is not decided, only totality, well-formedness, determinism and stability under round trip.',
        technique='TLA+ serialisation state machine checked by TLC; trace validation across process environments'),
    'C18': dict(
        category='model_checking',
        text='TextField.tla defines spellings of a field value (decorated directives), the respelling actions, the RFC-level '
             'reader Meaning and the table Allowed(type) with the grammar that makes each variation insignificant. TLC checks '
             'that every action preserves Meaning and enumerates every spelling within one (two for short values) permitted '
             'actions of 40 canonical values of 14 field types; each spelling is parsed by the real class and compared with the '
             'canonical spelling; compose() of the canonical value must itself parse equal. The engines underneath are modelled as coded: '
             'every call of the text list parser (ParserText.tla) and of the text composer primitives (ComposerText.tla) made while real '
             'classes work is validated line by line; MC_ComposerText proves that a composed list parses back exactly when no item is '
             'empty, holds the separator or starts/ends with a blank; all short texts are replayed on the number / separator / literal '
             'readers (Gen_ParserTextPrims) and all header sections of <= 3 lines over known, respelled, fragment and unknown names on '
             'the header section dispatcher (HeaderBlock.tla).',
        design_ref='6/C18, Appendix D, 14.1, 16',
        note='Trusted: Allowed(type) as my reading of the RFCs; the harness tokeniser (TLC asserts that Render of the tokenised '
             'value reproduces the canonical text); NEL (JSON) is not generated.',
        technique='TLA+ respelling actions enumerated by TLC; replay of the generated spellings into the real parsers'),
    'C19': dict(
        category='exploration',
        text='Growth.tla states (1) the loop structure of the engine: with a strictly advancing cursor the loop terminates and work '
             '<= variants * size (TLC; the zero-advance shape is rejected) and (2) the growth law over measurement series. For every '
             'class with an accepted input, 50+ scalable input shapes (repetition, runs of 18 filler patterns after / before / '
             'inside the input, length and count fields set to 2^3..2^31) are measured at sizes 256..4096 (thorough: 16384) with '
             'sys.monitoring LINE events and call depth; Trace_Growth checks the doubling law, the per-byte bound, the depth bound.',
        design_ref='6/C19, section 9',
        note='Bounds only measured inputs (no proof about all inputs); constants Slack, PerByte, Base, DepthBound are stated in '
             'Growth.tla; LINE events of CPython 3.12 stand for interpreter-level steps.',
        technique='TLA+ growth law evaluated by TLC on deterministic step-count series; TLC termination/linearity of the loop model'),
}

NOT_APPLICABLE = {}


def build():
    checks = []
    for pid in sorted(CHECKS):
        c = CHECKS[pid]
        checks.append({
            'property_id': pid,
            'quick_cmd': './check %s --tier quick' % pid,
            'thorough_cmd': './check %s --tier thorough' % pid,
            'evidence_file': 'evidence/%s.json' % pid,
            'replay_cmd_template': './check %s --replay {path}' % pid,
            'engine': 'tlc',
            'level_claimed': {'category': c['category'], 'text': c['text'], 'design_ref': c['design_ref']},
            'level_note': c['note'],
            'technique': c['technique'],
        })
    props = [json.loads(l)['id'] for l in open(os.path.join(VERIF, 'properties.jsonl'))]
    na = []
    for pid in props:
        if pid not in CHECKS:
            na.append({'property_id': pid, 'reason': NOT_APPLICABLE.get(
                pid, 'check not built yet in this round (planned, see DESIGN.md section 6); not claimed')})
    return {
        'version': 1,
        'setup_cmd': 'make -C /verif setup',
        'hooks': {
            'guard': 'CRYPTOPARSER_VERIF',
            'enable': 'no source hooks: the harness wraps library methods from its own process when '
                      'CRYPTOPARSER_VERIF=1 (set by ./check); /venv imports /repo in editable mode, so every check '
                      'runs the current working tree',
            'baseline_off_cmd': 'cd /repo && /venv/bin/python -m pytest -q -p no:cacheprovider --timeout=900',
            'source_commits': [],
            'add_only': True,
        },
        'engines': [{'name': 'tlc', 'path': 'harness/tlc.py', 'serves_properties': sorted(CHECKS),
                     'kind_free_text': 'TLC 1.8 explicit-state model checker on the TLA+ modules in spec/, bound to '
                                       'the implementation by trace validation and replay (harness/)'}],
        'checks': checks,
        'not_applicable': na,
        'notes': 'See DESIGN.md. known_findings.json lists recorded defects and fix: commits.',
    }


if __name__ == '__main__':
    with open(os.path.join(VERIF, 'MANIFEST.json'), 'w') as f:
        json.dump(build(), f, indent=1)
    print('MANIFEST.json written: %d checks' % len(CHECKS))
