"""Byte-level mutation operators over accepted inputs (used by C02, C03, C05, C19)."""


def mutants(data, rng, n, others=()):
    """yield up to n mutated variants of data (bytes); deterministic for a given rng state"""
    data = bytes(data)
    L = len(data)
    out = []
    seen = {data}

    def add(b):
        b = bytes(b)
        if b not in seen and len(b) <= 70000:
            seen.add(b)
            out.append(b)
    # systematic ones first
    add(b'')
    for k in (1, 2, 3, 4, 5, 6, 8, L // 2, L - 2, L - 1):
        if 0 < k < L:
            add(data[:k])
    for junk in (b'\x00', b'\xff', b'\r\n', b' ', data[:7], data):
        add(data + junk)
    # amplification: a self-delimiting encoding repeated is a longer valid input for list-like formats
    # (several TXT character-strings, several header lines, several records)
    for k in (3, 20, 21, 40):
        if L and L * k <= 4000:
            add(data * k)
    for i in range(min(L, 12)):            # header region: length fields, types, versions
        for d in (1, -1, 0x80):
            b = bytearray(data)
            b[i] = (b[i] + d) & 0xff
            add(b)
        for v in (0, 0xff, 0x7f):
            b = bytearray(data)
            b[i] = v
            add(b)
    # every proper prefix (short inputs) / a sample of cut positions (long inputs): a cut right behind a
    # length field is where a parser reads bytes that are not there
    cuts = range(1, L) if L <= 160 else sorted(rng.sample(range(1, L), 64))
    for k in cuts:
        add(data[:k])
    # saturate single bytes anywhere (length / count / timestamp fields in the middle of a message)
    spots = range(L) if L <= 96 else sorted(rng.sample(range(L), 48))
    for i in spots:
        for v in (0xff, 0x7f):
            b = bytearray(data)
            b[i] = v
            add(b)
    # small non-zero bytes are counts and short lengths: make them zero (empty lists, zero certificates)
    # with and without the now unannounced rest
    for i in spots:
        if 0 < data[i] <= 16:
            b = bytearray(data)
            b[i] = 0
            add(b)
            add(bytes(b[:i + 1]) + b'\x00' * 4)
    # octets that are 0 or 1 are often booleans (RFC 4251: every non-zero value is TRUE) or two-valued codes: other
    # "true" values near the end of the message (flags and reserved words sit there) and at the sampled spots
    for i in sorted(set(range(max(0, L - 24), L)) | set(spots)):
        if data[i] in (0, 1):
            for v in (2, 0x80):
                b = bytearray(data)
                b[i] = v
                add(b)
    # whole fields set to zero (identifiers, cookies, session ids, timestamps: a zero value is a value, not an absence)
    for w in (8, 4):
        for i in range(0, min(L - w + 1, 48)):
            if any(data[i:i + w]):
                b = bytearray(data)
                b[i:i + w] = bytes(w)
                add(b)
    # line endings of text protocols: bare LF, space before the line end, bare CR, doubled
    if b'\n' in data or b'\r' in data:
        for a, b_ in ((b'\r\n', b'\n'), (b'\r\n', b' \n'), (b'\r\n', b' \r\n'), (b'\r\n', b'\r'), (b'\r\n', b'\r\n\r\n'), (b'\r\n', b'\t\r\n'),
                      (b'\n', b' \n'), (b'\n', b'\n\n')):
            if a in data:
                add(data.replace(a, b_))
                i = data.rfind(a)
                add(data[:i] + b_ + data[i + len(a):])
    # text grammars: runs of optional whitespace before / after the separators and at the end, explicit signs before tokens
    if L and all(b in (9, 10, 13) or 32 <= b < 127 for b in data[:200]):
        for sep in (b';', b',', b'=', b':'):
            if sep in data:
                for ws in (b'  ', b'\t', b' \t '):
                    add(data.replace(sep, ws + sep, 1))
                    add(data.replace(sep, ws + sep))
                    add(data.replace(sep, sep + ws, 1))
                    i = data.rfind(sep)
                    add(data[:i] + ws + sep + data[i + 1:])
        for ws in (b'  ', b'\t', b'   '):
            add(data + ws)
            add(data.rstrip(b'\r\n') + ws + data[len(data.rstrip(b'\r\n')):])
        # JSON values: a character of a string given as \uXXXX escape (an ASCII letter - the same string - and a non-ASCII one)
        if data[:1] == b'{' and b'": "' in data:
            i = data.find(b'": "') + 4
            if i < len(data) - 1 and 0x61 <= data[i] <= 0x7a:
                add(data[:i] + b'\\u00' + b'%02x' % data[i] + data[i + 1:])
            add(data[:i] + b'\\u00fc' + data[i:])
            add(data[:i] + b'\\u20ac\\ud83d\\ude00' + data[i:])
        # JSON values: another top-level type that still mentions the member names (a reader that indexes the decoded value)
        if data[:1] == b'{':
            import re as _re2
            keys = _re2.findall(rb'"([A-Za-z_][A-Za-z0-9_-]*)"\s*:', data)[:4]
            for k in keys:
                add(b'["' + k + b'"]')
                add(b'"' + k + b'"')
            add(b'[' + data + b']')
            add(b'null')
            add(b'17')
        # quoted strings: a backslash and an escaped quote inside (quoted-pair)
        q = data.find(b'"')
        if q >= 0 and data.find(b'"', q + 1) > q + 1:
            add(data[:q + 2] + b'\\' + data[q + 2:])
            add(data[:q + 2] + b'\\"' + data[q + 2:])
            add(data[:q + 2] + b'\\\\' + data[q + 2:])
        # keys of key:value / key=value tokens exchanged (an IPv4 network under ip6:, a number where a name is expected)
        import re as _re
        toks = _re.findall(rb'[^ ;,]+', data)
        keyed = [(t, t.split(sepc, 1)) for t in toks for sepc in (b':', b'=') if sepc in t and not t.startswith(sepc)][:8]
        for a in range(len(keyed)):
            for b_ in range(len(keyed)):
                ta, (ka, va) = keyed[a]
                tb, (kb, vb) = keyed[b_]
                if ka != kb:
                    sepc = ta[len(ka):len(ka) + 1]
                    add(data.replace(ta, kb + sepc + va, 1))
        words = data.split(b' ')
        for k in range(1, min(len(words), 7)):
            for sign in (b'+', b'-', b'~', b'?'):
                if words[k] and words[k][:1] not in (b'+', b'-', b'~', b'?'):
                    add(b' '.join(words[:k] + [sign + words[k]] + words[k + 1:]))
    # letter case, one letter at a time (text protocols: where does case matter?)
    for i in spots:
        if 0x41 <= data[i] <= 0x5a or 0x61 <= data[i] <= 0x7a:
            b = bytearray(data)
            b[i] ^= 0x20
            add(b)
    # dotted names (host names, OIDs, versions): an empty component - the character next to a dot made a dot as well
    for i in range(1, L - 1):
        if (data[i - 1] == 0x2e or data[i + 1] == 0x2e) and data[i] != 0x2e and (0x30 <= data[i] <= 0x39 or 0x41 <= data[i] <= 0x5a or 0x61 <= data[i] <= 0x7a):
            b = bytearray(data)
            b[i] = 0x2e
            add(b)
    for v in ber_variants(data):
        add(v)
    n = n + len(out)
    tries = 0
    while len(out) < n and tries < n * 6 and L:
        tries += 1
        op = rng.randrange(9)
        b = bytearray(data)
        if op == 0:
            i = rng.randrange(L)
            b[i] ^= 1 << rng.randrange(8)
        elif op == 1:
            i = rng.randrange(L)
            b[i] = rng.choice([0, 1, 0x7f, 0x80, 0xfe, 0xff, 0x20, 0x3b, 0x2c, 0x3d, 0x22])
        elif op == 2:
            i = rng.randrange(L)
            del b[i:i + rng.choice([1, 1, 2, 4, 8])]
        elif op == 3:
            i = rng.randrange(L + 1)
            b[i:i] = bytes(rng.randrange(256) for _ in range(rng.choice([1, 1, 2, 4])))
        elif op == 4 and others:
            o = rng.choice(others)
            if o:
                a = rng.randrange(len(o))
                i = rng.randrange(L + 1)
                b[i:i] = o[a:a + rng.choice([1, 2, 4, 8, 16])]
        elif op == 5:
            i = rng.randrange(L)
            j = min(L, i + rng.choice([1, 2, 4, 8]))
            b[i:i] = b[i:j]
        elif op == 6:
            b = b[:rng.randrange(L)]
        elif op == 7:
            i = rng.randrange(L)
            b[i] = rng.choice([0xc3, 0xe2, 0xf0, 0xff, 0x80, 0xbf])    # broken UTF-8 / non-ASCII
        else:
            i = rng.randrange(L)
            b[i] = (b[i] + rng.choice([1, -1, 2, 16, 128])) & 0xff
        add(b)
    return out[:n]


def _ber_tree(data, start, end, depth=0):
    """definite-length TLV nodes (offset, header_len, length, children) or None if not BER-shaped"""
    nodes = []
    pos = start
    while pos < end:
        if pos + 2 > end:
            return None
        first = data[pos + 1]
        if first < 0x80:
            hl, ln = 2, first
        else:
            k = first & 0x7f
            if k == 0 or k > 4 or pos + 2 + k > end:
                return None
            hl, ln = 2 + k, int.from_bytes(data[pos + 2:pos + 2 + k], 'big')
        if pos + hl + ln > end:
            return None
        children = None
        if data[pos] & 0x20 and depth < 6:
            children = _ber_tree(data, pos + hl, pos + hl + ln, depth + 1)
        nodes.append((pos, hl, ln, children or []))
        pos += hl + ln
    return nodes


def _ber_encode(data, node, target, form):
    """re-encode the subtree rooted at node; the node at offset `target` gets a non-minimal length form"""
    pos, hl, ln, children = node
    if children:
        body = b''.join(_ber_encode(data, c, target, form) for c in children)
    else:
        body = bytes(data[pos + hl:pos + hl + ln])
    if pos == target:
        lenbytes = bytes([0x80 | form]) + len(body).to_bytes(form, 'big')
    elif hl == 2 and len(body) < 0x80:
        lenbytes = bytes([len(body)])
    else:
        k = max(hl - 2, (len(body).bit_length() + 7) // 8, 1)
        lenbytes = bytes([0x80 | k]) + len(body).to_bytes(k, 'big')
    return bytes([data[pos]]) + lenbytes + body


def ber_variants(data):
    """the same BER value with the length of one TLV written in a longer (non-minimal) form"""
    data = bytes(data)
    if len(data) < 2 or data[0] not in (0x30, 0x31) or len(data) > 4000:
        return []
    tree = _ber_tree(data, 0, len(data))
    if not tree or len(tree) != 1:
        return []
    out = []
    todo = [tree[0]]
    offsets = []
    while todo and len(offsets) < 12:
        nd = todo.pop(0)
        offsets.append(nd[0])
        todo += nd[3]
    for off in offsets:
        for form in (1, 2, 4):
            try:
                out.append(_ber_encode(data, tree[0], off, form))
            except Exception:  # pylint: disable=broad-except
                pass
    return out
