"""Byte-level mutation operators over accepted inputs (used by C02, C03, C05, C19)."""


def mutants(data, rng, n, others=()):
    """yield up to n mutated variants of data (bytes); deterministic for a given rng state"""
    data = bytes(data)
    L = len(data)
    out = []
    seen = {data}

    def add(b):
        b = bytes(b)
        if b not in seen and len(b) <= 70000:
            seen.add(b)
            out.append(b)
    # systematic ones first
    add(b'')
    for k in (1, 2, 3, 4, 5, 6, 8, L // 2, L - 2, L - 1):
        if 0 < k < L:
            add(data[:k])
    for junk in (b'\x00', b'\xff', b'\r\n', b' ', data[:7], data):
        add(data + junk)
    for i in range(min(L, 12)):            # header region: length fields, types, versions
        for d in (1, -1, 0x80):
            b = bytearray(data)
            b[i] = (b[i] + d) & 0xff
            add(b)
        for v in (0, 0xff, 0x7f):
            b = bytearray(data)
            b[i] = v
            add(b)
    tries = 0
    while len(out) < n and tries < n * 6 and L:
        tries += 1
        op = rng.randrange(9)
        b = bytearray(data)
        if op == 0:
            i = rng.randrange(L)
            b[i] ^= 1 << rng.randrange(8)
        elif op == 1:
            i = rng.randrange(L)
            b[i] = rng.choice([0, 1, 0x7f, 0x80, 0xfe, 0xff, 0x20, 0x3b, 0x2c, 0x3d, 0x22])
        elif op == 2:
            i = rng.randrange(L)
            del b[i:i + rng.choice([1, 1, 2, 4, 8])]
        elif op == 3:
            i = rng.randrange(L + 1)
            b[i:i] = bytes(rng.randrange(256) for _ in range(rng.choice([1, 1, 2, 4])))
        elif op == 4 and others:
            o = rng.choice(others)
            if o:
                a = rng.randrange(len(o))
                i = rng.randrange(L + 1)
                b[i:i] = o[a:a + rng.choice([1, 2, 4, 8, 16])]
        elif op == 5:
            i = rng.randrange(L)
            j = min(L, i + rng.choice([1, 2, 4, 8]))
            b[i:i] = b[i:j]
        elif op == 6:
            b = b[:rng.randrange(L)]
        elif op == 7:
            i = rng.randrange(L)
            b[i] = rng.choice([0xc3, 0xe2, 0xf0, 0xff, 0x80, 0xbf])    # broken UTF-8 / non-ASCII
        else:
            i = rng.randrange(L)
            b[i] = (b[i] + rng.choice([1, -1, 2, 16, 128])) & 0xff
        add(b)
    return out[:n]
