"""Real objects for the drivers: templates parsed from the corpus, default construction,
in-place edits of mutable parts, observers."""
import collections
import copy
import enum

import attr

from . import corpus


def templates():
    """list of (cls, obj, wire) for every corpus input that parses; nested parsable values included"""
    out = []
    lib = corpus.by_class()
    for cls, datas in sorted(lib.items(), key=lambda kv: kv[0].__module__ + kv[0].__qualname__):
        for d in datas:
            try:
                obj, n = cls.parse_immutable(d)
            except Exception:  # pylint: disable=broad-except
                continue
            out.append((cls, obj, d[:n]))
    return out


def required_kwargs(obj):
    """constructor arguments that have no default, deep-copied from obj (attrs classes only)"""
    cls = type(obj)
    if not attr.has(cls):
        return None
    kw = {}
    for f in attr.fields(cls):
        if not f.init:
            continue
        if f.default is attr.NOTHING:
            try:
                kw[f.name.lstrip('_')] = copy.deepcopy(getattr(obj, f.name))
            except Exception:  # pylint: disable=broad-except
                return None
    return kw


def has_defaults(cls):
    return attr.has(cls) and any(f.init and f.default is not attr.NOTHING for f in attr.fields(cls))


_EXTRA_REQUIRED = {}


def construct_default(obj):
    """construct with as many default arguments as the class accepts: the fields without a default come
    from the template; a field whose own default is rejected by its validator (cipher_suite=None) too"""
    import re
    kw = required_kwargs(obj)
    if kw is None:
        return None
    cls = type(obj)
    names = {f.name.lstrip('_'): f.name for f in attr.fields(cls) if f.init}
    for extra in _EXTRA_REQUIRED.get(cls, ()):
        kw[extra] = copy.deepcopy(getattr(obj, names[extra]))
    for _ in range(len(names) + 1):
        try:
            return cls(**kw)
        except Exception as e:  # pylint: disable=broad-except
            cand = [n for n in re.findall(r"'(\w+)'", str(e)) if n.lstrip('_') in names and n.lstrip('_') not in kw]
            if not cand:
                raise
            n = cand[0].lstrip('_')
            kw[n] = copy.deepcopy(getattr(obj, names[n]))
            _EXTRA_REQUIRED.setdefault(cls, []).append(n)
    return cls(**kw)


def mutable_parts(obj, depth=0, path=''):
    """DFS over the fields: (path, container) for every in-place editable container"""
    from cryptoparser.common.base import ArrayBase
    parts = []
    if depth > 4:
        return parts
    if attr.has(type(obj)):
        for f in attr.fields(type(obj)):
            if not f.init:
                continue          # derived state (set by __attrs_post_init__), not something a caller assigns
            try:
                v = getattr(obj, f.name)
            except AttributeError:
                continue
            p = path + '.' + f.name
            if isinstance(v, (bytearray, list, dict, set, ArrayBase)):
                parts.append((p, v))
                if isinstance(v, (list, ArrayBase)):
                    for i, x in enumerate(list(v)[:3]):
                        parts += mutable_parts(x, depth + 1, p + '[%d]' % i)
            elif attr.has(type(v)):
                parts.append((p, v))
                parts += mutable_parts(v, depth + 1, p)
    elif isinstance(obj, ArrayBase):
        parts.append((path, obj))
    return parts


_POOL = {}
SET_MEMBER_TYPES = {}      # (class, field name) -> enumeration whose members a set-valued field holds (seen in some corpus object)


def vector_item_pool():
    """items seen in corpus instances of each vector class (to edit vectors that are empty)"""
    from cryptoparser.common.base import ArrayBase
    if _POOL:
        return _POOL
    seen = set()

    def walk(o, depth=0):
        if depth > 6 or id(o) in seen:
            return
        seen.add(id(o))
        if isinstance(o, ArrayBase):
            for x in list(o):
                _POOL.setdefault(type(o), [])
                if len(_POOL[type(o)]) < 4:
                    _POOL[type(o)].append(x)
                walk(x, depth + 1)
        elif attr.has(type(o)):
            for f in attr.fields(type(o)):
                try:
                    v = getattr(o, f.name)
                    if isinstance(v, (set, frozenset)) and v and all(isinstance(x, enum.Enum) for x in v):
                        SET_MEMBER_TYPES[(type(o), f.name)] = type(next(iter(v)))
                    walk(v, depth + 1)
                except AttributeError:
                    pass
        elif isinstance(o, (list, tuple)):
            for x in o:
                walk(x, depth + 1)
    temps = templates()
    for _, obj, _ in temps:
        walk(obj)
    # vectors whose items are parsed through a variant class: one corpus object of EVERY alternative of the variant (an
    # alternative no corpus vector happens to hold - the HelloRetryRequest form of key_share in a server extension list -
    # is an item a caller can put there all the same)
    by_type = {}
    for cls, obj, _ in temps:
        by_type.setdefault(cls, obj)
    for vcls in corpus.all_subclasses(ArrayBase):
        try:
            item_class = vcls.get_param().item_class
            alts = list(item_class._get_variant_types())          # pylint: disable=protected-access
        except Exception:  # pylint: disable=broad-except
            continue
        have = {type(x) for x in _POOL.get(vcls, [])}
        for a in alts:
            if a in by_type and a not in have:
                _POOL.setdefault(vcls, []).append(copy.deepcopy(by_type[a]))
    _POOL.setdefault(object, [])
    return _POOL


def edit_in_place(part, k):
    """one in-place edit of a container; returns a description or None if nothing could be done"""
    from cryptoparser.common.base import ArrayBase
    import enum
    if isinstance(part, ArrayBase) and len(part) == 0:
        for cand in vector_item_pool().get(type(part), []):
            try:
                part.append(copy.deepcopy(cand))
                return 'vector.append(pool)'
            except Exception:  # pylint: disable=broad-except
                continue
    if isinstance(part, bytearray):
        part.append(0x41 + k % 20)
        return 'bytearray.append'
    if isinstance(part, ArrayBase):
        items = list(part)
        for attempt in ('append', 'del', 'reverse'):
            try:
                if attempt == 'append' and items:
                    part.append(items[k % len(items)])
                    return 'vector.append'
                if attempt == 'del' and items:
                    del part[0]
                    return 'vector.del'
                if attempt == 'reverse' and len(items) > 1 and items[0] != items[-1]:
                    part.reverse()
                    return 'vector.reverse'
            except Exception:  # pylint: disable=broad-except
                continue
        return None
    if isinstance(part, list):
        part.append(part[0] if part else 0)
        return 'list.append'
    if isinstance(part, collections.OrderedDict) or isinstance(part, dict):
        part['verif-key-%d' % k] = None
        return 'dict.setitem'
    if isinstance(part, set):
        # a set of enumeration members (capability / status flags): another member of the same enumeration, a different
        # one on every call; other sets get a marker value
        members = [x for x in part if isinstance(x, enum.Enum)]
        if members and len(members) == len(part):
            absent = [m for m in type(members[0]) if m not in part]
            if absent:
                part.add(absent[k % len(absent)])
                return 'set.add(member)'
            part.discard(members[k % len(members)])
            return 'set.discard(member)'
        part.add('verif-%d' % k)
        return 'set.add'
    if attr.has(type(part)):
        # every applicable single-field assignment; k selects one (size-changing ones first: they are what cached
        # sizes and length prefixes of the enclosing containers have to follow)
        edits = []
        for f in attr.fields(type(part)):
            if not f.init:
                continue
            try:
                v = getattr(part, f.name)
            except AttributeError:
                continue
            if isinstance(v, bytes) and not isinstance(v, ArrayBase):
                edits.insert(0, (f.name, v + v + b'\x01', 'attr.bytes'))
            elif isinstance(v, bool):
                edits.append((f.name, not v, 'attr.bool'))
            elif isinstance(v, enum.Enum):
                members = list(type(v))
                if len(members) > 1:
                    edits.append((f.name, members[(members.index(v) + 1) % len(members)], 'attr.enum'))
        for j in range(len(edits)):
            name, val, what = edits[(k + j) % len(edits)]
            try:
                # only assignments the constructor would accept as they are (assignment runs no validator or converter;
                # a value outside the declared domain would not be "an object the library lets a caller construct")
                if getattr(attr.evolve(part, **{name.lstrip('_'): val}), name) != val:
                    continue
                setattr(part, name, val)
                return what
            except Exception:  # pylint: disable=broad-except
                continue
    return None


OBSERVERS = ['compose', 'as_json', 'as_markdown', 'ja3', 'hassh', 'hassh_server', 'fingerprints', 'key_tag',
             'key_bytes', 'host_key_asdict']


def observers_of(obj):
    res = []
    for name in OBSERVERS:
        try:
            a = getattr(type(obj), name, None)
        except Exception:  # pylint: disable=broad-except
            a = None
        if a is not None:
            res.append(name)
    if 'as_markdown' in res:
        res.append('as_markdown_enc')
    else:
        # values that are not Serializable themselves are reported through an enclosing result object
        res += ['as_json', 'as_markdown', 'as_markdown_enc']
    return res


_HOLDER = []


def holder(obj):
    """what an analyzer built on the library does: a Serializable result object holding the value"""
    from cryptoparser.common.base import Serializable
    if not _HOLDER:
        @attr.s
        class ScanResult(Serializable):
            target = attr.ib()
            value = attr.ib()
        _HOLDER.append(ScanResult)
    return _HOLDER[0]('example.com', obj)


_ENC = []
LAST_RAW = []      # the value the last plain observer call returned (the caller's to edit: see edit_result)


def call_observer(obj, name):
    """returns (digest-able result, raised?)"""
    from .project import project
    if name in ('as_json', 'as_markdown', 'as_markdown_enc') and getattr(type(obj), 'as_markdown', None) is None:
        obj = holder(obj)
    if name == 'as_markdown_enc':
        # markdown rendering under a caller-installed class-level text encoder: the encoder is process-wide
        # state that the call must leave as it found it
        from cryptoparser.common.base import Serializable, SerializableTextEncoder

        class Upper(SerializableTextEncoder):
            def __call__(self, o, level):
                is_complex, text = super(Upper, self).__call__(o, level)
                return is_complex, text.upper() if isinstance(text, str) else text
        saved = Serializable.post_text_encoder
        if not _ENC:
            _ENC.append(Upper())
        mine = _ENC[0]          # one encoder object for the whole run, as an application would install it
        Serializable.post_text_encoder = mine

        def restored():
            return getattr(type(obj), 'post_text_encoder', mine) is mine and Serializable.post_text_encoder is mine
        try:
            r = obj.as_markdown()
            return project([r, 'encoder-restored' if restored() else 'ENCODER-NOT-RESTORED']), False
        except Exception as e:  # pylint: disable=broad-except
            return 'raised:' + type(e).__name__ + ('' if restored() else ':ENCODER-NOT-RESTORED'), True
        finally:
            # back to the configuration the other observers run under: the library "restores" the encoder by
            # pinning it on the subclass, which must not leak into calls made under the default encoder
            Serializable.post_text_encoder = saved
            for klass in corpus.all_subclasses(Serializable):
                if 'post_text_encoder' in vars(klass):
                    delattr(klass, 'post_text_encoder')
    try:
        a = getattr(type(obj), name)
        if isinstance(a, property):
            r = a.fget(obj)
        else:
            r = getattr(obj, name)()
        LAST_RAW[:] = [r]
        return project(r), False
    except Exception as e:  # pylint: disable=broad-except
        return 'raised:' + type(e).__name__, True


def edit_result():
    """the caller edits, in place, what the last observer returned (and everything mutable reachable one level down);
    returns a description or None when the result is immutable"""
    import collections as _c
    if not LAST_RAW:
        return None
    done = []

    def edit(v, depth=0):
        if isinstance(v, bytearray):
            v += b'\x00verif'
            if len(v) > 8:
                v[0] ^= 0xff
            done.append('bytearray')
        elif isinstance(v, list):
            v.append('verif-result-edit')
            if depth < 1:
                for x in list(v)[:3]:
                    edit(x, depth + 1)
            done.append('list')
        elif isinstance(v, (dict, _c.OrderedDict)):
            if depth < 1:
                for x in list(v.values())[:6]:
                    edit(x, depth + 1)
            v['verif-result-edit'] = 1
            done.append('dict')
        elif isinstance(v, set):
            v.add('verif-result-edit')
            done.append('set')
    edit(LAST_RAW[0])
    LAST_RAW[:] = []
    return '+'.join(sorted(set(done))) if done else None
