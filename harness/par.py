"""Process-parallel map for CPU-bound drivers (fork; deterministic: results in input order)."""
import multiprocessing
import os


def pmap(func, items, workers=None):
    items = list(items)
    workers = workers or min(14, os.cpu_count() or 2)
    if len(items) <= 1 or workers <= 1:
        return [func(x) for x in items]
    ctx = multiprocessing.get_context('fork')
    with ctx.Pool(workers) as pool:
        return pool.map(func, items, chunksize=max(1, len(items) // (workers * 8)))
