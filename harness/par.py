"""Process-parallel map for CPU-bound drivers (fork; deterministic: results in input order)."""
import multiprocessing
import os
import traceback


class WorkerError(RuntimeError):
    """a driver function raised in a worker process (machinery failure, exit code 2)"""


def _guard(arg):
    func, x = arg
    try:
        return ('ok', func(x))
    except BaseException as e:  # pylint: disable=broad-except
        # a worker that dies silently would leave Pool.map waiting forever: everything comes back as a value
        return ('err', '%s: %s\n%s' % (type(e).__name__, e, traceback.format_exc()[-1500:]))


def pmap(func, items, workers=None, chunk=None):
    items = list(items)
    workers = workers or min(14, os.cpu_count() or 2)
    if len(items) <= 1 or workers <= 1:
        return [func(x) for x in items]
    ctx = multiprocessing.get_context('fork')
    # chunk=1: a fresh worker process per item (maxtasksperchild), for drivers that leave process-wide state behind
    with ctx.Pool(workers, maxtasksperchild=1 if chunk == 1 else None) as pool:
        res = pool.map(_guard, [(func, x) for x in items], chunksize=chunk or max(1, len(items) // (workers * 8)))
    bad = [r[1] for r in res if r[0] != 'ok']
    if bad:
        raise WorkerError('%d driver call(s) failed in worker processes; first:\n%s' % (len(bad), bad[0]))
    return [r[1] for r in res]
