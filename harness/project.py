"""project(obj): the abstract value of a library object, as plain JSON-able data.

"Equal, field by field" in the properties means equality of projections.  bytes and
bytearray are not distinguished (as in Python ==); enum members are projected by class and
member name (plus code when they have one); foreign value objects (public keys, asn1crypto
structures, URLs, IP networks) by what identifies them."""
import collections
import datetime
import enum
import ipaddress

import attr


def _enum(o):
    code = None
    v = o.value
    if hasattr(v, 'code'):
        code = v.code
    elif isinstance(v, (int, str)):
        code = v
    return ['E', type(o).__name__, o.name, code if isinstance(code, (int, str)) else None]


def project(o, depth=0):  # pylint: disable=too-many-return-statements,too-many-branches
    if depth > 40:
        return ['DEEP']
    if o is None or isinstance(o, (bool, str)):
        return o
    if isinstance(o, enum.Enum):
        return _enum(o)
    if isinstance(o, int):
        return o
    if isinstance(o, float):
        return ['F', repr(o)]
    if isinstance(o, (bytes, bytearray, memoryview)):
        return ['B', bytes(o).hex()]
    if isinstance(o, datetime.datetime):
        if o.tzinfo is not None and o.utcoffset() is not None:
            u = o.astimezone(datetime.timezone.utc)
            return ['DT', 'aware', u.year, u.month, u.day, u.hour, u.minute, u.second, u.microsecond]
        return ['DT', 'naive', o.year, o.month, o.day, o.hour, o.minute, o.second, o.microsecond]
    if isinstance(o, datetime.timedelta):
        return ['TD', o.days, o.seconds, o.microseconds]
    if isinstance(o, (ipaddress.IPv4Network, ipaddress.IPv6Network, ipaddress.IPv4Address, ipaddress.IPv6Address)):
        return ['IP', str(o)]
    from cryptoparser.common.base import ArrayBase
    if isinstance(o, ArrayBase):
        return {'cls': type(o).__name__, 'items': [project(x, depth + 1) for x in list(o)]}
    if isinstance(o, (list, tuple)):
        return [project(x, depth + 1) for x in o]
    if isinstance(o, (set, frozenset)):
        import json
        return ['SET'] + sorted((project(x, depth + 1) for x in o), key=lambda v: json.dumps(v, sort_keys=True, default=repr))
    if isinstance(o, collections.OrderedDict):
        return ['OD'] + [[project(k, depth + 1), project(v, depth + 1)] for k, v in o.items()]
    if isinstance(o, dict):
        import json
        return ['D'] + sorted(([project(k, depth + 1), project(v, depth + 1)] for k, v in o.items()),
                              key=lambda v: json.dumps(v, sort_keys=True, default=repr))
    if attr.has(type(o)):
        fields = {}
        for f in attr.fields(type(o)):
            try:
                val = getattr(o, f.name)
            except AttributeError:
                continue
            fields[f.name.lstrip('_')] = project(val, depth + 1)
        # plain (non-attrs) attributes set in __init__ of attrs(init=False) classes
        for k, v in sorted(getattr(o, '__dict__', {}).items()):
            k2 = k.lstrip('_')
            if k2 not in fields and not callable(v):
                fields[k2] = project(v, depth + 1)
        return {'cls': type(o).__name__, 'fields': fields}
    for name in ('der', 'dump'):
        if hasattr(o, name):
            try:
                v = getattr(o, name)
                v = v() if callable(v) else v
                if isinstance(v, (bytes, bytearray)):
                    return {'cls': type(o).__name__, 'der': bytes(v).hex()}
            except Exception:  # pylint: disable=broad-except
                pass
    if hasattr(o, '_asdict') and not hasattr(o, '__dict__'):
        try:
            return {'cls': type(o).__name__, 'tuple': project(dict(o._asdict()), depth + 1)}
        except Exception:  # pylint: disable=broad-except
            pass
    if hasattr(o, '_fields') and isinstance(o, tuple):
        return {'cls': type(o).__name__, 'tuple': [project(x, depth + 1) for x in o]}
    d = getattr(o, '__dict__', None)
    if d is not None:
        return {'cls': type(o).__name__,
                'fields': {k.lstrip('_'): project(v, depth + 1) for k, v in sorted(d.items()) if not callable(v)}}
    return ['R', type(o).__name__, str(o)]
