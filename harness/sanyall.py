"""Parse every specification module with SANY (setup step)."""
import glob
import os
import sys
from concurrent.futures import ThreadPoolExecutor

from . import tlc


def main():
    mods = sorted(os.path.basename(p)[:-4] for p in glob.glob(os.path.join(tlc.SPEC, '*.tla')))
    bad = []
    with ThreadPoolExecutor(8) as ex:
        for mod, (ok, out) in zip(mods, ex.map(tlc.sany, mods)):
            if not ok:
                bad.append(mod)
                print(out[-1500:])
    print('SANY: %d modules parsed, %d failed %s' % (len(mods), len(bad), bad))
    sys.exit(1 if bad else 0)


if __name__ == '__main__':
    main()
