"""Serialise a deterministic list of objects in THIS process (one "environment") and write one record per object.
usage: python -m harness.ser_worker <env id> <order: forward|reverse|shuffle> <thorough 0/1> <out file>"""
import enum
import json
import os

import attr
import random
import sys


def object_list(thorough):
    """must not depend on the hash seed or on earlier serialisations: built from the corpus in corpus order"""
    from . import objects, variants
    rng = random.Random(1234)
    pool = objects.vector_item_pool()
    out = []
    seen_cls = {}
    for cls, obj, wire in objects.templates():
        if isinstance(obj, enum.Enum):
            continue
        seen_cls[cls] = seen_cls.get(cls, 0) + 1
        if seen_cls[cls] > (4 if thorough else 2):
            continue
        out.append((cls, obj))
        # one variant per FIELD first (every field gets its turn: empty lists filled, optional values present), then more
        allv = [(d, v) for d, v in variants.variants(obj, rng, pool, per_field=3) if not d.startswith(('assigned-after-observing', 'inplace'))]
        picked, fields, taken = [], set(), set()
        for i, (d, v) in enumerate(allv):
            f = d.split('=')[0].split('.')[0]
            if f not in fields:
                fields.add(f)
                taken.add(i)
                picked.append((d, v))
        for i, (d, v) in enumerate(allv):
            if len(picked) >= (16 if thorough else 8):
                break
            if i not in taken:
                picked.append((d, v))
        for d, v in picked[:(16 if thorough else 8)]:
            out.append((cls, v))
            BASE_OF[len(out) - 1] = obj           # differs from the template in one field
        # an enumeration-valued field given as the plain wire number (the constructor takes it where it converts): the object
        # the library calls equal to the template has to be rendered like it
        if attr.has(cls) and seen_cls[cls] == 1:
            for f in attr.fields(cls):
                v = getattr(obj, f.name, None)
                if f.init and isinstance(v, enum.Enum) and isinstance(getattr(v, 'value', None), int) and not isinstance(v.value, bool):
                    try:
                        out.append((cls, attr.evolve(obj, **{f.name.lstrip('_'): int(v.value)})))
                        BASE_OF[len(out) - 1] = obj
                    except Exception:  # pylint: disable=broad-except
                        continue
        # text that is hostile to a renderer (format fields, percent directives, several lines): in the first text-valued field
        # the constructor lets it into
        if attr.has(cls) and seen_cls[cls] == 1:
            for f in attr.fields(cls):
                if f.init and isinstance(getattr(obj, f.name, None), str):
                    try:
                        out.append((cls, attr.evolve(obj, **{f.name.lstrip('_'): HOSTILE})))
                        break
                    except Exception:  # pylint: disable=broad-except
                        continue
    # ... and inside list items, where only a parser puts it: unknown header fields, SPF macros
    from .api import call
    from cryptoparser.httpx.header import HttpHeaderFields
    from cryptoparser.dnsrec.txt import DnsRecordTxtValueSpf
    for pcls, data in ((HttpHeaderFields, b'X-Json: {"a": {0}, "b": "}{"}\r\nX-Format: %s %(x)s {x!r:>{w}} {}\r\nAge: 1\r\n\r\n'),
                       (DnsRecordTxtValueSpf, b'v=spf1 exists:%{ir}.%{v}._spf.%{d2} include:%{d}.example.com -all')):
        o, res, _ = call(pcls.parse_exact_size, data)
        if o == 'ok':
            out.append((pcls, res))
    return out


HOSTILE = '{0} {x} }{ {} %s %(a)s'
BASE_OF = {}


_ENC = []


def under_encoder(target):
    from cryptoparser.common.base import Serializable, SerializableTextEncoder
    from .api import call

    class Upper(SerializableTextEncoder):
        def __call__(self, o, level):
            is_complex, text = super(Upper, self).__call__(o, level)
            return is_complex, text.upper() if isinstance(text, str) else text
    if not _ENC:
        _ENC.append(Upper())
    saved = Serializable.post_text_encoder
    Serializable.post_text_encoder = _ENC[0]
    try:
        return call(lambda o: o.as_markdown(), target)
    finally:
        Serializable.post_text_encoder = saved


def main():
    env, order, thorough, path = int(sys.argv[1]), sys.argv[2], sys.argv[3] == '1', sys.argv[4]
    sys.path.insert(0, os.environ.get('VERIF_REPO', '/repo'))
    import warnings
    warnings.simplefilter('ignore')
    from . import objects
    from .api import call
    from .common import digest
    objs = object_list(thorough)
    # equal values built along different paths: plain dicts with enumeration keys / sets / nested dicts, filled in one order in
    # the even environments and in the opposite order in the odd ones (equal objects, identical output)
    from cryptoparser.tls.subprotocol import TlsAlertDescription, TlsContentType
    from cryptoparser.tls.mysql import MySQLCapability
    from cryptodatahub.common.algorithm import Hash
    synth = []
    for keys in (list(TlsAlertDescription)[:5], list(TlsContentType), [Hash.SHA2_256, Hash.SHA1, Hash.MD5], ['b', 'a', 'c']):
        ks = list(keys) if env % 2 == 0 else list(reversed(keys))
        d = {}
        for i, k in enumerate(ks):
            d[k] = str(k) if not hasattr(k, 'name') else k.name
        synth.append(d)
        # (a set large enough for colliding hash slots: only then does the iteration order follow the insertion order)
        caps = list(MySQLCapability)[::2]
        synth.append({'outer': dict(d), 'flags': set(caps if env % 2 == 0 else reversed(caps)),
                      'names': set(['x%d' % i for i in range(12)] if env % 2 == 0 else ['x%d' % i for i in reversed(range(12))]),
                      'frozen_flags': frozenset(caps if env % 2 == 0 else reversed(caps)),
                      'frozen_names': frozenset(['y%d' % i for i in range(12)] if env % 2 == 0 else ['y%d' % i for i in reversed(range(12))])})
    holder_cls = type(objects.holder(None))
    for v in synth:
        objs.append((holder_cls, objects.holder(v)))
    idx = list(range(len(objs)))
    if order == 'reverse':
        idx.reverse()
    elif order == 'shuffle':
        random.Random(99 + env).shuffle(idx)
    if env % 2:
        # equal objects built along another path: every set-valued field refilled in the opposite insertion order
        import attr
        rebuilt = []
        for cls, obj in objs:
            try:
                if attr.has(type(obj)):
                    for f in attr.fields(type(obj)):
                        v = getattr(obj, f.name, None)
                        if type(v) is set and len(v) > 1:
                            try:
                                order = sorted(v, reverse=True)
                            except TypeError:
                                order = list(v)[::-1]
                            nv = set()
                            for x in order:
                                nv.add(x)
                            setattr(obj, f.name, nv)
            except Exception:  # pylint: disable=broad-except
                pass
            try:
                # ... and every IP network inside has been looked at (cached properties filled), as an analyser would
                import ipaddress
                from .variants import nested_parsables
                for part in [obj] + nested_parsables(obj):
                    if attr.has(type(part)):
                        for f in attr.fields(type(part)):
                            v = getattr(part, f.name, None)
                            if isinstance(v, (ipaddress.IPv4Network, ipaddress.IPv6Network)):
                                _ = (v.broadcast_address, v.hostmask, v.num_addresses, v.is_private)
            except Exception:  # pylint: disable=broad-except
                pass
            rebuilt.append((cls, obj))
        objs = rebuilt
    recs = {}
    for i in idx:
        cls, obj = objs[i]
        target = obj if getattr(type(obj), 'as_markdown', None) is not None else objects.holder(obj)
        rec = {'ev': 'ser', 'env': env, 'oid': i + 1, 'cls': cls.__module__.replace('cryptoparser.', '') + '.' + cls.__qualname__}
        j1 = call(lambda o: o.as_json(), target)
        j2 = call(lambda o: o.as_json(), target)
        # Markdown once more under an application-installed text encoder, before (even environments) or after (odd ones)
        # the renderings under the default encoder: the text is a function of (object, installed encoder), not of which
        # encoder was in place when the class was rendered for the first time
        if env % 2 == 0:
            me = under_encoder(target)
        m1 = call(lambda o: o.as_markdown(), target)
        m2 = call(lambda o: o.as_markdown(), target)
        if env % 2:
            me = under_encoder(target)
        rec['md_enc'] = digest(me[1]) if me[0] == 'ok' and isinstance(me[1], str) else 'err:' + str(me[0])
        rec['json_ok'] = j1[0] == 'ok' and isinstance(j1[1], str)
        rec['json_err'] = j1[0]
        wf = False
        if rec['json_ok']:
            try:
                json.loads(j1[1])
                wf = True
            except Exception:  # pylint: disable=broad-except
                wf = False
        rec['json_wf'] = wf
        rec['json'] = digest(j1[1]) if rec['json_ok'] else 'err'
        rec['json2'] = digest(j2[1]) if j2[0] == 'ok' else 'err'
        rec['md_ok'] = m1[0] == 'ok'
        rec['md_err'] = m1[0]
        rec['md_text'] = isinstance(m1[1], str)
        rec['md'] = digest(m1[1]) if m1[0] == 'ok' and isinstance(m1[1], str) else 'err:' + type(m1[1]).__name__
        rec['md2'] = digest(m2[1]) if m2[0] == 'ok' and isinstance(m2[1], str) else 'err:' + type(m2[1]).__name__
        rec['doc'] = j1[1] if rec['json_ok'] and wf and len(j1[1]) < 3000 else None
        # an equal object: the template this variant was made from, when the library says the two are equal
        rec['eq_base'] = False
        rec['base_json'] = rec['base_md'] = '-'
        base = BASE_OF.get(i)
        if base is not None:
            try:
                eq = bool(obj == base) and not bool(obj != base) and type(obj) is type(base)
            except Exception:  # pylint: disable=broad-except
                eq = False
            if eq:
                tb = base if getattr(type(base), 'as_markdown', None) is not None else objects.holder(base)
                bj = call(lambda o: o.as_json(), tb)
                bm = call(lambda o: o.as_markdown(), tb)
                rec['eq_base'] = True
                rec['base_json'] = digest(bj[1]) if bj[0] == 'ok' else 'err'
                rec['base_md'] = digest(bm[1]) if bm[0] == 'ok' and isinstance(bm[1], str) else 'err'
        # an equal object: the parse-compose round trip of this one
        rec['rt_ok'] = False
        rec['rt_json'] = rec['rt_md'] = '-'
        c = call(lambda o: o.compose(), obj)
        if c[0] == 'ok':
            p = call(cls.parse_exact_size, bytes(c[1]))
            if p[0] == 'ok' and not isinstance(p[1], enum.Enum):
                from .api import dig
                try:
                    equal = bool(p[1] == obj)           # "equal objects" in the property's sense: the library's own ==
                except Exception:  # pylint: disable=broad-except
                    equal = False
                if dig(p[1]) == dig(obj) or (equal and type(p[1]) is type(obj)):
                    t2 = p[1] if getattr(type(p[1]), 'as_markdown', None) is not None else objects.holder(p[1])
                    rj = call(lambda o: o.as_json(), t2)
                    rm = call(lambda o: o.as_markdown(), t2)
                    rec['rt_ok'] = True
                    rec['rt_json'] = digest(rj[1]) if rj[0] == 'ok' else 'err'
                    rec['rt_md'] = digest(rm[1]) if rm[0] == 'ok' and isinstance(rm[1], str) else 'err:' + type(rm[1]).__name__
        recs[i] = rec
    with open(path, 'w') as f:
        json.dump({'nobj': len(objs), 'recs': [recs[i] for i in sorted(recs)]}, f)


if __name__ == '__main__':
    main()
