"""Harness-side recorder of the text list engine: wraps ParserText.parse_string_array from outside (no change to /repo)
and logs one event per call on its return, the error path included."""
import functools

EVENTS = []
LIMIT = [0]
_installed = []


def install():
    if _installed:
        return
    from cryptoparser.common import parse as P
    PT = P.ParserText
    orig = PT.parse_string_array

    @functools.wraps(orig)
    def wrapper(self, name, separator, item_class=str, fallback_class=None, separator_spaces='', skip_empty=False, max_item_num=None):
        if len(EVENTS) >= LIMIT[0]:
            return orig(self, name, separator, item_class, fallback_class, separator_spaces, skip_empty, max_item_num)
        pos0 = self._parsed_length                           # pylint: disable=protected-access
        data = bytes(self._parsable[pos0:])                  # pylint: disable=protected-access
        plain = item_class is str and fallback_class is None
        ev = {'plain': bool(plain), 'text': list(data[:300]), 'long': len(data) > 300,
              'seps': [ord(c) for c in separator] if isinstance(separator, str) else [],
              'spaces': [ord(c) for c in separator_spaces] if isinstance(separator_spaces, str) else [],
              'skip': bool(skip_empty), 'maxitems': -1 if max_item_num is None else int(max_item_num)}
        out = 'ok'
        try:
            return orig(self, name, separator, item_class, fallback_class, separator_spaces, skip_empty, max_item_num)
        except Exception as e:  # pylint: disable=broad-except
            out = type(e).__name__
            raise
        finally:
            items = []
            if out == 'ok':
                # the text of every item: a plain string, the code of a coded enumeration member, what a parsed item composes to
                try:
                    for x in self[name]:
                        if isinstance(x, str):
                            items.append(list(x.encode(self._encoding)))          # pylint: disable=protected-access
                        elif isinstance(getattr(getattr(x, 'value', None), 'code', None), str):
                            items.append(list(x.value.code.encode('ascii')))
                        else:
                            raise ValueError('no text form')
                    ev['plain'] = True
                except Exception:  # pylint: disable=broad-except
                    items = []
                    ev['plain'] = False
            ev.update(out=out, items=items, consumed=self._parsed_length - pos0,     # pylint: disable=protected-access
                      count=len(self[name]) if out == 'ok' and name in self else 0)
            EVENTS.append(ev)
    PT.parse_string_array = wrapper
    _installed.append(orig)


def uninstall():
    from cryptoparser.common import parse as P
    if _installed:
        P.ParserText.parse_string_array = _installed.pop()
