"""Run TLC / SANY and parse what they print.

All TLC runs happen under /verif/build (metadir, scratch copies of the spec
directory are not needed: TLC only writes into -metadir).  Nothing here reads
or writes /tmp.
"""
import os
import re
import shutil
import subprocess
import time
import uuid

VERIF = os.path.dirname(os.path.dirname(os.path.abspath(__file__)))
SPEC = os.path.join(VERIF, 'spec')
BUILD = os.path.join(VERIF, 'build')
JAR = '/opt/veriftools/tla/tla2tools.jar:/opt/veriftools/tla/CommunityModules-deps.jar'


class TlcError(Exception):
    """Machinery failure (exit 2), never a verdict."""


class TlcResult(object):
    def __init__(self, out, rc, wall, cmd):
        self.out = out
        self.rc = rc
        self.wall = wall
        self.cmd = cmd
        m = re.search(r'(\d+) states generated, (\d+) distinct states found', out)
        self.generated = int(m.group(1)) if m else 0
        self.distinct = int(m.group(2)) if m else 0
        m = re.search(r'depth of the complete state graph search is (\d+)', out)
        self.depth = int(m.group(1)) if m else 0
        self.invariant_violated = re.findall(r'Error: Invariant (\S+) is violated', out)
        self.property_violated = re.findall(r'Error: (?:Action|Temporal) propert(?:y|ies) (\S*)', out)
        self.temporal_violated = bool(re.search(r'Temporal propert(y|ies) .*violated', out))
        self.deadlock = 'Deadlock reached' in out
        self.finished = 'Model checking completed' in out or 'Finished in' in out
        self.errors = [l for l in out.splitlines() if l.startswith('Error:')]
        self.postcondition_failed = 'The postcondition' in out and 'violated' in out or 'POSTCONDITION' in out and 'violated' in out
        self.assume_failed = 'Assumption' in out and 'is false' in out

    @property
    def ok(self):
        return self.finished and not self.errors

    def prints(self, tag):
        """Tuples printed with PrintT(<<"tag", ...>>): returns list of raw strings inside << >>."""
        res = []
        for line in self.out.splitlines():
            line = line.strip()
            if line.startswith('<<"%s"' % tag):
                res.append(line)
        return res

    def coverage_zero(self):
        """Names of actions that TLC reports with 0 states under -coverage."""
        zero = []
        for m in re.finditer(r'<(\w+) line \d+, col \d+ to line \d+, col \d+ of module (\w+)>: (\d+):(\d+)', self.out):
            if int(m.group(3)) == 0 and int(m.group(4)) == 0:
                zero.append(m.group(1))
        return zero

    def action_counts(self):
        counts = {}
        for m in re.finditer(r'<(\w+) line \d+, col \d+ to line \d+, col \d+ of module (\w+)>: (\d+):(\d+)', self.out):
            counts[m.group(1)] = counts.get(m.group(1), 0) + int(m.group(4))
        return counts


def parse_tla_tuple(s):
    """Parse a printed TLA+ value made of <<>>, strings, ints, TRUE/FALSE into Python lists."""
    pos = [0]

    def ws():
        while pos[0] < len(s) and s[pos[0]] in ' \n\t,':
            pos[0] += 1

    def val():
        ws()
        if s.startswith('<<', pos[0]):
            pos[0] += 2
            items = []
            while True:
                ws()
                if s.startswith('>>', pos[0]):
                    pos[0] += 2
                    return items
                items.append(val())
        if s[pos[0]] == '"':
            j = pos[0] + 1
            buf = []
            while s[j] != '"':
                if s[j] == '\\':
                    j += 1
                buf.append(s[j])
                j += 1
            pos[0] = j + 1
            return ''.join(buf)
        m = re.match(r'-?\d+', s[pos[0]:])
        if m:
            pos[0] += len(m.group(0))
            return int(m.group(0))
        m = re.match(r'TRUE|FALSE', s[pos[0]:])
        if m:
            pos[0] += len(m.group(0))
            return m.group(0) == 'TRUE'
        m = re.match(r'[A-Za-z_][A-Za-z0-9_]*', s[pos[0]:])
        if m:
            pos[0] += len(m.group(0))
            return m.group(0)
        raise ValueError('cannot parse TLA value at %d: %r' % (pos[0], s[pos[0]:pos[0] + 40]))

    return val()


def run(module, cfg=None, workers=1, env=None, timeout=600, simulate=None, depth=None, seed=None,
        coverage=False, dump=None, deadlock=True, extra=None, tag=None, cwd=None):
    """Run TLC on spec/<module>.tla with spec/<cfg>.cfg.  Returns TlcResult."""
    cwd = cwd or SPEC
    cfg = cfg or module
    meta = os.path.join(BUILD, 'tlc', '%s-%s' % (tag or cfg, uuid.uuid4().hex[:8]))
    os.makedirs(meta, exist_ok=True)
    cmd = ['java', '-XX:+UseParallelGC', '-Xss512m', '-Xmx8g', '-cp', JAR, 'tlc2.TLC',
           '-workers', str(workers), '-metadir', meta, '-noGenerateSpecTE',
           '-config', cfg + '.cfg']
    if not deadlock:
        cmd.append('-deadlock')
    if coverage:
        cmd += ['-coverage', '1']
    if simulate:
        cmd += ['-simulate', simulate]
    if depth:
        cmd += ['-depth', str(depth)]
    if seed is not None:
        cmd += ['-seed', str(seed)]
    if dump:
        cmd += ['-dump', 'dot,actionlabels', dump]
    if extra:
        cmd += list(extra)
    cmd.append(module + '.tla')
    full_env = dict(os.environ)
    full_env.pop('JAVA_TOOL_OPTIONS', None)
    if env:
        full_env.update({k: str(v) for k, v in env.items()})
    t0 = time.time()
    try:
        proc = subprocess.run(cmd, cwd=cwd, env=full_env, stdout=subprocess.PIPE, stderr=subprocess.STDOUT,
                              timeout=timeout, universal_newlines=True)
        out, rc = proc.stdout, proc.returncode
    except subprocess.TimeoutExpired as e:
        out = (e.stdout or b'')
        if isinstance(out, bytes):
            out = out.decode('utf-8', 'replace')
        out += '\nTIMEOUT after %ss\n' % timeout
        rc = 124
    finally:
        shutil.rmtree(meta, ignore_errors=True)
    res = TlcResult(out, rc, time.time() - t0, ' '.join(cmd[:1] + ['...tlc2.TLC'] + cmd[6:]))
    return res


def require_ok(res, what):
    if not res.ok:
        tail = '\n'.join(res.out.splitlines()[-40:])
        raise TlcError('%s: TLC did not finish cleanly (rc=%s)\n%s' % (what, res.rc, tail))
    return res


def sany(module, cwd=None):
    cmd = ['java', '-cp', JAR, 'tla2sany.SANY', module + '.tla']
    proc = subprocess.run(cmd, cwd=cwd or SPEC, stdout=subprocess.PIPE, stderr=subprocess.STDOUT,
                          universal_newlines=True)
    ok = proc.returncode == 0 and 'rror' not in proc.stdout.replace('Semantic errors:\n\n', '')
    return ok, proc.stdout
