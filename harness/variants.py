"""Constructible objects: field-by-field variations of template objects (attr.evolve re-runs the class's own
converters and validators, so a variant exists only if the library lets a caller construct it)."""
import datetime
import enum

import attr


def _values_for(value, rng, pool):
    from cryptoparser.common.base import ArrayBase
    out = []
    if isinstance(value, bool):
        return [not value]
    if isinstance(value, enum.Enum):
        members = list(type(value))
        if len(members) > 24:
            members = members[:8] + rng.sample(members[8:], 12) + members[-4:]
        return [m for m in members if m is not value]
    if isinstance(value, int):
        return [v for v in (0, 1, 2, 127, 128, 255, 256, 65535, 65536, 2 ** 24 - 1, 2 ** 31, 2 ** 32 - 1, 2 ** 32, 2 ** 63, 2 ** 64 - 1,
                            value + 1, value ^ 0x80) if v != value]
    if isinstance(value, (bytes, bytearray)):
        t = type(value)
        return [t(b''), t(b'\x00'), t(bytes(rng.randrange(256) for _ in range(33))), t(b'\xff' * 2), t(bytes(value) * 2)]
    if isinstance(value, str):
        return ['a', 'abc-123', 'x' * 255, 'y' * 256, ('z1' * 150), ('w' * 600), value + value]
    if isinstance(value, datetime.datetime):
        utc = datetime.timezone.utc
        vals = [datetime.datetime(1970, 1, 1, tzinfo=utc), datetime.datetime(2024, 7, 1, 12, 0, 0, tzinfo=utc),
                datetime.datetime(2038, 1, 19, 3, 14, 7, tzinfo=utc),
                datetime.datetime(2024, 5, 1, 14, 0, 0, tzinfo=datetime.timezone(datetime.timedelta(hours=2))),
                datetime.datetime(2012, 6, 1, 12, 0, 0, 123000, tzinfo=datetime.timezone(datetime.timedelta(hours=-5, minutes=-30))),
                datetime.datetime(2001, 9, 9, 1, 46, 40)]
        return vals
    if isinstance(value, datetime.timedelta):
        return [datetime.timedelta(0), datetime.timedelta(seconds=1), datetime.timedelta(days=400)]
    if isinstance(value, ArrayBase):
        items = list(value)
        outs = [[], items[:1], items + items, items[::-1]]
        extra = pool.get(type(value), [])
        if extra:
            outs.append(items + extra[:2])
            outs.append(extra[:1])
        return [o for o in outs if o != items]
    if type(value) in (list, tuple) and value:
        return [type(value)(value[:1]), type(value)(list(value) + list(value)), type(value)(value[::-1])]
    return out


def variants(obj, rng, pool, per_field=8, others=()):
    """yield (description, variant object)"""
    cls = type(obj)
    if not attr.has(cls):
        return
    fields = [f for f in attr.fields(cls) if f.init]
    for f in fields:
        try:
            cur = getattr(obj, f.name)
        except AttributeError:
            continue
        cands = []
        if cur is None:
            for o in others:
                v = getattr(o, f.name, None)
                if v is not None:
                    cands.append(v)
                    break
        else:
            try:
                cands = _values_for(cur, rng, pool)
            except Exception:  # pylint: disable=broad-except
                cands = []
            if f.default is None:
                cands.append(None)
        if len(cands) > per_field:
            cands = cands[:3] + rng.sample(cands[3:], per_field - 3)
        for v in cands:
            try:
                yield '%s=%s' % (f.name, repr(v)[:40]), attr.evolve(obj, **{f.name.lstrip('_'): v})
            except Exception:  # pylint: disable=broad-except
                continue


def nested_parsables(obj, depth=0, seen=None):
    """every nested value that is itself composable/parsable"""
    from cryptoparser.common.base import ArrayBase
    from cryptoparser.common.parse import ParsableBaseNoABC
    seen = seen if seen is not None else set()
    out = []
    if depth > 5 or id(obj) in seen:
        return out
    seen.add(id(obj))
    kids = []
    if isinstance(obj, ArrayBase):
        kids = list(obj)
    elif attr.has(type(obj)):
        for f in attr.fields(type(obj)):
            try:
                kids.append(getattr(obj, f.name))
            except AttributeError:
                pass
    elif isinstance(obj, (list, tuple)):
        kids = list(obj)
    for k in kids:
        if isinstance(k, ParsableBaseNoABC) and not isinstance(k, enum.Enum) and depth >= 0:
            out.append(k)
        out += nested_parsables(k, depth + 1, seen)
    return out
