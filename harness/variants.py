"""Constructible objects: field-by-field variations of template objects (attr.evolve re-runs the class's own
converters and validators, so a variant exists only if the library lets a caller construct it)."""
import datetime
import enum
import ipaddress

import attr
import urllib3


def _values_for(value, rng, pool):
    from cryptoparser.common.base import ArrayBase
    out = []
    if isinstance(value, bool):
        return [('flip', not value)]
    if isinstance(value, enum.Enum):
        members = list(type(value))
        if len(members) > 24:
            # a fixed spread (not a random sample: which member fails in which way must not depend on the seed)
            rest = members[8:-4]
            members = members[:8] + rest[::max(1, len(rest) // 12)][:12] + members[-4:]
        return [('member', m) for m in members if m is not value]
    if isinstance(value, int):
        return [(('2^%d' % (v.bit_length() - 1) if v and v & (v - 1) == 0 else '2^%d-1' % v.bit_length() if v and v & (v + 1) == 0 else str(v)) if i < 15 else ('plus1', 'flip7')[i - 15], v)
                for i, v in enumerate((0, 1, 2, 127, 128, 255, 256, 65535, 65536, 2 ** 24 - 1, 2 ** 31, 2 ** 32 - 1, 2 ** 32, 2 ** 63, 2 ** 64 - 1,
                                       value + 1, value ^ 0x80)) if v != value]
    if isinstance(value, (bytes, bytearray)):
        t = type(value)
        return [('empty', t(b'')), ('zero1', t(b'\x00')), ('random33', t(bytes((7 * i + 1) % 256 for i in range(33)))), ('ff2', t(b'\xff' * 2)),
                ('doubled', t(bytes(value) * 2)),
                # the same octets as the other byte-string type (accepted only where the validator allows both)
                ('other-bytes-type', (bytes if t is bytearray else bytearray)(value))]
    if isinstance(value, str):
        return [('len1', 'a'), ('len7', 'abc-123'), ('len255', 'x' * 255), ('len256', 'y' * 256), ('len300', 'z1' * 150), ('len600', 'w' * 600),
                ('doubled', value + value),
                # a last character that is also a separator of the enclosing grammar
                ('inner-2sp', 'a  b'), ('ends-eq', (value or 'a') + '='), ('ends-colon', (value or 'a') + ':'), ('ends-slash', (value or 'a') + '/')]
    if isinstance(value, datetime.datetime):
        utc = datetime.timezone.utc
        # aware datetimes only: the parsers produce aware (UTC) datetimes, a naive one has no defined instant
        vals = [('epoch', datetime.datetime(1970, 1, 1, tzinfo=utc)), ('utc2024', datetime.datetime(2024, 7, 1, 12, 0, 0, tzinfo=utc)),
                ('utc2038', datetime.datetime(2038, 1, 19, 3, 14, 7, tzinfo=utc)),
                ('plus0200', datetime.datetime(2024, 5, 1, 14, 0, 0, tzinfo=datetime.timezone(datetime.timedelta(hours=2)))),
                ('minus0530', datetime.datetime(2012, 6, 1, 12, 0, 0, tzinfo=datetime.timezone(datetime.timedelta(hours=-5, minutes=-30))))]
        if value.tzinfo is None:
            vals = [(l, v.astimezone(utc).replace(tzinfo=None)) for l, v in vals[:3]]
        return vals
    if isinstance(value, (ipaddress.IPv4Network, ipaddress.IPv6Network)):
        # every prefix length that is a boundary in either family (an IPv6 /32, an IPv4 /31, the single host, everything)
        v6 = isinstance(value, ipaddress.IPv6Network)
        base = int(value.network_address)
        top = 128 if v6 else 32
        nets = []
        for plen in (0, 1, 8, 24, 31, 32, 33, 64, 127, 128):
            if plen <= top:
                masked = base >> (top - plen) << (top - plen) if plen else 0
                nets.append(('prefix%d' % plen, type(value)((masked, plen))))
        return [(l, n) for l, n in nets if n != value]
    if isinstance(value, urllib3.util.url.Url):
        # every part a URL can have, for the scheme at hand and for the other kind (mailto is composed by its own rule)
        from cryptodatahub.common.types import convert_url
        conv = convert_url()
        texts = ['mailto:reports@example.com?subject=a%20b#weekly', 'mailto:a@example.com#frag', 'mailto:a@example.com!10m',
                 'https://user@example.com:8443/path/x?query=1&b=2#fragment', 'https://example.com', 'http://[2001:db8::1]:80/']
        out = []
        for t in texts:
            try:
                u = conv(t)
            except Exception:  # pylint: disable=broad-except
                continue
            if isinstance(u, urllib3.util.url.Url) and u != value:
                out.append(('url:' + t[:24], u))
        return out
    if isinstance(value, datetime.timedelta):
        return [('zero', datetime.timedelta(0)), ('1s', datetime.timedelta(seconds=1)), ('400d', datetime.timedelta(days=400))]
    if isinstance(value, ArrayBase):
        items = list(value)
        outs = [('empty', []), ('first', items[:1]), ('doubled', items + items), ('reversed', items[::-1])]
        extra = pool.get(type(value), [])
        if extra:
            outs.append(('plus-pool', items + extra[:2]))
            outs.append(('pool1', extra[:1]))
            for x in extra[2:14]:
                if not any(type(y) is type(x) for y in items):
                    outs.append(('only-' + type(x).__name__, [x]))
                    outs.append(('first-' + type(x).__name__, [x] + items))       # ... followed by the items already there
        return [(l, o) for l, o in outs if o != items]
    if type(value) in (list, tuple) and value:
        outs = [('first', type(value)(value[:1])), ('doubled', type(value)(list(value) + list(value))), ('reversed', type(value)(value[::-1]))]
        if all(isinstance(x, str) for x in value):
            # a list of text items: an empty item at the end (the root label of an absolute domain name) and in the middle
            outs += [('plus-empty-last', type(value)(list(value) + [''])), ('plus-empty-middle', type(value)([value[0], ''] + list(value[1:])))]
        return outs
    return out


_EVOLVABLE = {}


def _evolve(obj, field, value):
    """attr.evolve; for a class one of whose converters does not accept its own output (SignedCertificateTimestamp.log takes
    the log id, holds the log) evolve fails whatever is changed: there the field is converted by its own converter, assigned to
    a deep copy and the whole object validated - the object a caller gets who builds it field by field"""
    import copy
    cls = type(obj)
    if cls not in _EVOLVABLE:
        try:
            attr.evolve(obj)
            _EVOLVABLE[cls] = True
        except Exception:  # pylint: disable=broad-except
            _EVOLVABLE[cls] = False
    if _EVOLVABLE[cls]:
        return attr.evolve(obj, **{field.name.lstrip('_'): value})
    fresh = copy.deepcopy(obj)
    setattr(fresh, field.name, field.converter(value) if field.converter is not None else value)
    attr.validate(fresh)
    return fresh


def variants(obj, rng, pool, per_field=8, others=(), depth=0):
    """yield (description, variant object)"""
    cls = type(obj)
    if not attr.has(cls):
        return
    fields = [f for f in attr.fields(cls) if f.init]
    for f in fields:
        try:
            cur = getattr(obj, f.name)
        except AttributeError:
            continue
        cands = []
        if type(cur) is list and not cur:
            # an empty list field: fill it with values of sibling fields (accepted only if the validator agrees)
            for g in fields:
                try:
                    sib = getattr(obj, g.name)
                except AttributeError:
                    continue
                if g is not f and sib is not None and not isinstance(sib, (bool, int, str, bytes, bytearray, list, tuple, dict, set, enum.Enum)):
                    cands.append(('sibling1', [sib]))
                    cands.append(('sibling2', [sib, sib]))
        if cur is None:
            for o in others:
                v = getattr(o, f.name, None)
                if v is not None:
                    cands.append(('present', v))
                    break
        elif not cands:
            try:
                cands = _values_for(cur, rng, pool)
            except Exception:  # pylint: disable=broad-except
                cands = []
            if not cands:
                # a value of a type with no generic variations (a key object, a URL, ...): the value the same field has in
                # another object of the class
                for o in others:
                    v = getattr(o, f.name, None)
                    try:
                        differs = v is not None and v != cur
                    except Exception:  # pylint: disable=broad-except
                        differs = False
                    if differs:
                        cands.append(('other', v))
                        break
            plain = bool(cands)
            if f.default is None:
                cands.append(('absent', None))
            if not plain and attr.has(type(cur)) and depth == 0:
                # a component object (key=value component of a header field, nested structure): vary its own fields
                for l2, v2 in variants(cur, rng, pool, per_field=4, others=(), depth=1):
                    cands.append(('.' + l2, v2))
        if len(cands) > per_field and all(l == 'member' for l, _ in cands):
            rest, more = cands[3:], max(per_field - 3, 0)
            cands = cands[:3] + (rest[::max(1, len(rest) // more)][:more] if more else [])
        twins = 0
        for label, v in cands:
            try:
                fresh = _evolve(obj, f, v)
                yield ('%s%s' if label.startswith('.') else '%s=%s') % (f.name, label), fresh
            except Exception:  # pylint: disable=broad-except
                continue
            if depth == 0 and twins < 2 and not label.startswith('.'):
                # the same object reached by another history: observe the original first (compose, fingerprints, key tag,
                # serialisation - whatever it offers), THEN assign the field.  An object is its field values, so this twin
                # has to behave exactly like the freshly constructed variant (no stale memoised result).
                try:
                    twin = _observed_then_assigned(obj, f.name, getattr(fresh, f.name))
                except Exception:  # pylint: disable=broad-except
                    twin = None
                try:
                    # field for field the same object as the fresh one (a constructor that derives other fields from the
                    # assigned one, or adjusts them, gives a twin that is NOT the same value: left out)
                    same = twin is not None and twin == fresh and type(twin) is type(fresh)
                except Exception:  # pylint: disable=broad-except
                    same = False
                if same:
                    twins += 1
                    yield 'assigned-after-observing:%s=%s' % (f.name, label), twin
    if depth == 0:
        for d, v in inplace_variants(obj):
            yield d, v


def nested_parsables(obj, depth=0, seen=None):
    """every nested value that is itself composable/parsable"""
    from cryptoparser.common.base import ArrayBase
    from cryptoparser.common.parse import ParsableBaseNoABC
    seen = seen if seen is not None else set()
    out = []
    if depth > 5 or id(obj) in seen:
        return out
    seen.add(id(obj))
    kids = []
    if isinstance(obj, ArrayBase):
        kids = list(obj)
    elif attr.has(type(obj)):
        for f in attr.fields(type(obj)):
            try:
                kids.append(getattr(obj, f.name))
            except AttributeError:
                pass
    elif isinstance(obj, (list, tuple)):
        kids = list(obj)
    for k in kids:
        if isinstance(k, ParsableBaseNoABC) and not isinstance(k, enum.Enum) and depth >= 0:
            out.append(k)
        out += nested_parsables(k, depth + 1, seen)
    return out


def inplace_variants(obj, limit=10):
    """(description, object): deep copies of obj with ONE nested part edited in place (an element of a vector assigned a
    longer value, a flag of a nested structure flipped, ...).  These are objects a caller can build as well, and the ones
    on which cached sizes of enclosing containers go stale."""
    import copy
    from cryptoparser.common.base import ArrayBase
    from . import objects
    try:
        n = len(objects.mutable_parts(obj))
    except Exception:  # pylint: disable=broad-except
        return
    done = 0
    for i in range(n):
        if done >= limit:
            break
        try:
            dup = copy.deepcopy(obj)
            parts = objects.mutable_parts(dup)
            if i >= len(parts):
                continue
            path, part = parts[i]
            if '[' not in path and path.count('.') < 2:
                continue          # top-level containers are covered by the constructor variants
            if not (isinstance(part, ArrayBase) or attr.has(type(part))) or part is objects.mutable_parts(obj)[i][1]:
                continue          # plain containers carry no validator to tell whether the edit is legal; shared parts are C13's
            what = objects.edit_in_place(part, i)
        except Exception:  # pylint: disable=broad-except
            continue
        if what:
            done += 1
            yield 'inplace%s:%s' % (path, what), dup


def _observed_then_assigned(obj, name, value):
    import copy
    from . import objects
    twin = copy.deepcopy(obj)
    for ob in objects.observers_of(twin):
        if ob in ('compose', 'ja3', 'hassh', 'hassh_server', 'fingerprints', 'key_tag', 'as_json', 'known_hosts', 'host_key_asdict'):
            try:
                objects.call_observer(twin, ob)
            except Exception:  # pylint: disable=broad-except
                pass
    setattr(twin, name, copy.deepcopy(value))
    return twin
