"""Abstract values of DNS record data for DnsWire.tla."""
import calendar


def digits(n):
    out = []
    while n:
        out.append(n & 0xff)
        n >>= 8
    return out[::-1]


def code(x):
    v = getattr(x, 'value', None)
    if hasattr(v, 'code'):
        return v.code
    if hasattr(x, 'value') and isinstance(x.value, int):
        return x.value
    return int(x)


def labels(name):
    return [list(l.encode('idna')) for l in name.labels]


def key_abs(key, algorithm):
    from cryptodatahub.common.algorithm import Authentication
    kt = key.key_type
    p = key.params
    if kt == Authentication.RSA:
        return {'kind': 'rsa', 'e': digits(p.public_exponent), 'n': digits(p.modulus)}
    if kt == Authentication.DSS:
        size = key.key_size // 8
        return {'kind': 'dsa', 't': (size - 64) // 8, 'q': digits(p.order), 'p': digits(p.prime), 'g': digits(p.generator),
                'y': digits(p.public_key_value)}
    if kt in (Authentication.ECDSA, Authentication.GOST_R3410_01):
        return {'kind': 'ec', 'x': digits(p.point_x), 'y': digits(p.point_y), 'size': p.named_group.value.size // 8}
    if kt == Authentication.EDDSA:
        return {'kind': 'eddsa', 'key': list(p.key_data)}
    return None


def message_abs(o):
    n = type(o).__name__
    if n == 'DnsRecordDnskey':
        flags = 0
        for f in o.flags:
            flags |= int(f)
        k = key_abs(o.key, o.algorithm)
        if k is None:
            return None
        return 'dnskey', {'flags': flags, 'protocol': o.protocol.value, 'algorithm': code(o.algorithm), 'key': k}
    if n == 'DnsRecordDs':
        return 'ds', {'key_tag': o.key_tag, 'algorithm': code(o.algorithm), 'digest_type': code(o.digest_type), 'digest': list(o.digest)}
    if n == 'DnsRecordRrsig':
        return 'rrsig', {'type_covered': code(o.type_covered) if not hasattr(o.type_covered, 'value') or hasattr(o.type_covered.value, 'code') else o.type_covered.value,
                         'algorithm': code(o.algorithm), 'labels': o.labels, 'original_ttl': digits(o.original_ttl),
                         'expiration': digits(calendar.timegm(o.signature_expiration.utctimetuple())),
                         'inception': digits(calendar.timegm(o.signature_inception.utctimetuple())),
                         'key_tag': o.key_tag, 'signers_name': labels(o.signers_name), 'signature': list(o.signature)}
    if n == 'DnsRecordMx':
        return 'mx', {'priority': o.priority, 'exchange': labels(o.exchange)}
    if n == 'DnsRecordTxt':
        return 'txt', {'text': list(o.value.encode('ascii'))}
    if n == 'DnsNameUncompressed':
        return 'name', {'labels': labels(o)}
    return None
