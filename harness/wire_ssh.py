"""Abstract values of SSH objects for SshWire.tla (field values only)."""


def digits(n):
    out = []
    while n:
        out.append(n & 0xff)
        n >>= 8
    return out[::-1]


def name_bytes(x):
    if isinstance(x, str):
        return list(x.encode('ascii'))
    v = getattr(x, 'value', None)
    if hasattr(v, 'code'):
        return list(v.code.encode('ascii'))
    return list(bytes(x.compose()))


def names(vec):
    return [name_bytes(x) for x in vec]


def key_abs(k):
    n = type(k).__name__
    alg = list(k.host_key_algorithm.value.code.encode('ascii'))
    p = k.public_key.params
    if n == 'SshHostKeyRSA':
        return 'rsa_key', {'alg': alg, 'e': digits(p.public_exponent), 'n': digits(p.modulus)}
    if n == 'SshHostKeyDSS':
        return 'dss_key', {'alg': alg, 'p': digits(p.prime), 'q': digits(p.order), 'g': digits(p.generator), 'y': digits(p.public_key_value)}
    if n == 'SshHostKeyECDSA':
        from cryptoparser.ssh.key import SshEllipticCurveIdentifier
        cid = [c for c in SshEllipticCurveIdentifier if c.value.named_group == p.named_group]
        if not cid:
            return None
        return 'ecdsa_key', {'alg': alg, 'curve': list(cid[0].value.code.encode('ascii')), 'point': list(p.octet_bit_string)}
    if n == 'SshHostKeyEDDSA':
        return 'eddsa_key', {'alg': alg, 'key': list(p.key_data)}
    return None


def _ts(t):
    import calendar
    if t is None:
        return {'forever': True, 'secs': []}
    return {'forever': False, 'secs': digits(calendar.timegm(t.utctimetuple()))}


def _opts(vec):
    out = []
    for x in vec:
        n = type(x).__name__
        if n == 'SshCertExtensionUnparsed':
            out.append({'name': list(x.extension_name.encode('ascii')), 'k': 'raw', 'v': list(x.extension_data)})
        elif n == 'SshCertExtensionForceCommand':
            out.append({'name': list(b'force-command'), 'k': 'string', 'v': list(x.command.encode('ascii'))})
        elif n == 'SshCertExtensionSourceAddress':
            out.append({'name': list(b'source-address'), 'k': 'string', 'v': list(','.join(str(a) for a in x.addresses).encode('ascii'))})
        else:
            out.append({'name': list(x.extension_name.value.code.encode('ascii')), 'k': 'flag', 'v': []})
    return out


_CERT_KEYS = {'RSA': ('rsa_key', 'SshHostKeyRSA'), 'DSS': ('dss_key', 'SshHostKeyDSS'), 'ECDSA': ('ecdsa_key', 'SshHostKeyECDSA'),
              'EDDSA': ('eddsa_key', 'SshHostKeyEDDSA')}


def cert_abs(c):
    """OpenSSH certificate -> ('cert_v01' | 'cert_v00', field values)"""
    n = type(c).__name__
    if not n.startswith('SshHostCertificateV0'):
        return None
    v01 = n.startswith('SshHostCertificateV01')
    fam = n[len('SshHostCertificateV01'):]
    if fam not in _CERT_KEYS:
        return None
    kind, plain = _CERT_KEYS[fam]
    alg = c.host_key_algorithm.value.code
    p = c.public_key.params
    if kind == 'rsa_key':
        key = {'e': digits(p.public_exponent), 'n': digits(p.modulus)}
    elif kind == 'dss_key':
        key = {'p': digits(p.prime), 'q': digits(p.order), 'g': digits(p.generator), 'y': digits(p.public_key_value)}
    elif kind == 'ecdsa_key':
        from cryptoparser.ssh.key import SshEllipticCurveIdentifier
        cid = [x for x in SshEllipticCurveIdentifier if x.value.named_group == p.named_group]
        if not cid:
            return None
        key = {'curve': list(cid[0].value.code.encode('ascii')), 'point': list(p.octet_bit_string)}
    else:
        key = {'key': list(p.key_data)}
    family_names = {'rsa_key': ('ssh-rsa-cert', 'rsa-sha2'), 'dss_key': ('ssh-dss-cert',), 'ecdsa_key': ('ecdsa-sha2-',),
                    'eddsa_key': ('ssh-ed25519-cert',)}[kind]
    a = {'alg': list(alg.encode('ascii')), 'nonce': list(c.nonce), 'key_kind': kind, 'key': key,
         'serial': digits(c.serial) if v01 else [], 'type': digits(c.certificate_type.value.code), 'key_id': list(c.key_id.encode('ascii')),
         'principals': [list(x.value.encode('ascii')) for x in c.valid_principals],
         'after': _ts(c.valid_after), 'before': _ts(c.valid_before),
         'options': _opts(c.critical_options if v01 else c.constraints), 'extensions': _opts(c.extensions) if v01 else [],
         'reserved': list(c.reserved), 'sigkey': list(bytes(c.signature_key.key_bytes)),
         'sig_type': list(c.signature.signature_type.value.code.encode('ascii')), 'sig_data': list(c.signature.signature_data),
         'alg_matches_key': any(alg.startswith(x) for x in family_names) and (('-cert-v01@' if v01 else '-cert-v00@') in alg)}
    try:
        sk = key_abs(c.signature_key)
    except Exception:  # pylint: disable=broad-except
        sk = None
    a['sigkey_kind'] = sk[0] if sk else 'opaque'
    a['sigkey_abs'] = sk[1] if sk else {'alg': []}
    return ('cert_v01' if v01 else 'cert_v00'), a


def message_abs(o):
    n = type(o).__name__
    if n == 'SshKeyExchangeInit':
        return 'kexinit', {
            'cookie': list(o.cookie), 'kex': names(o.kex_algorithms), 'host_key': names(o.host_key_algorithms),
            'enc_c2s': names(o.encryption_algorithms_client_to_server), 'enc_s2c': names(o.encryption_algorithms_server_to_client),
            'mac_c2s': names(o.mac_algorithms_client_to_server), 'mac_s2c': names(o.mac_algorithms_server_to_client),
            'comp_c2s': names(o.compression_algorithms_client_to_server), 'comp_s2c': names(o.compression_algorithms_server_to_client),
            'lang_c2s': names(o.languages_client_to_server), 'lang_s2c': names(o.languages_server_to_client),
            'first_kex_packet_follows': bool(o.first_kex_packet_follows), 'reserved': digits(o.reserved)}
    if n in ('SshDHKeyExchangeInit', 'SshDHGroupExchangeInit'):
        return 'dh_init', {'code': int(o.get_message_code()), 'e': list(o.ephemeral_public_key)}
    if n in ('SshDHKeyExchangeReply', 'SshDHGroupExchangeReply'):
        try:
            ka = key_abs(o.host_public_key)
        except Exception:  # pylint: disable=broad-except
            ka = None
        return 'dh_reply', {'code': int(o.get_message_code()), 'key_blob': list(bytes(o.host_public_key.key_bytes)),
                            'f': list(o.ephemeral_public_key), 'signature': list(o.signature),
                            'key_kind': ka[0] if ka else 'opaque', 'key': ka[1] if ka else {'alg': []}}
    if n == 'SshDHGroupExchangeRequest':
        return 'gex_request', {'min': digits(o.gex_min), 'n': digits(o.gex_number), 'max': digits(o.gex_max)}
    if n == 'SshDHGroupExchangeGroup':
        return 'gex_group', {'p': list(o.p), 'g': list(o.g)}
    if n == 'SshDisconnectMessage':
        return 'disconnect', {'reason': digits(int(o.reason)), 'description': list(o.description.encode('utf-8')),
                              'language': list(o.language.encode('ascii'))}
    if n == 'SshNewKeys':
        return 'newkeys', {'x': 0}
    if n == 'SshUnimplementedMessage':
        return 'unimplemented', {'seq': digits(o.sequence_number)}
    if n == 'SshProtocolMessage':
        sw = bytes(o.software_version.compose())
        return 'banner', {'proto': list(bytes(o.protocol_version.compose())), 'software': list(sw),
                          'has_comment': o.comment is not None, 'comment': list((o.comment or '').encode('ascii'))}
    if n.startswith('SshHostKey'):
        return key_abs(o)
    if n.startswith('SshHostCertificateV0'):
        return cert_abs(o)
    return None
