"""Abstract values of SSH objects for SshWire.tla (field values only)."""


def digits(n):
    out = []
    while n:
        out.append(n & 0xff)
        n >>= 8
    return out[::-1]


def name_bytes(x):
    if isinstance(x, str):
        return list(x.encode('ascii'))
    v = getattr(x, 'value', None)
    if hasattr(v, 'code'):
        return list(v.code.encode('ascii'))
    return list(bytes(x.compose()))


def names(vec):
    return [name_bytes(x) for x in vec]


def key_abs(k):
    n = type(k).__name__
    alg = list(k.host_key_algorithm.value.code.encode('ascii'))
    p = k.public_key.params
    if n == 'SshHostKeyRSA':
        return 'rsa_key', {'alg': alg, 'e': digits(p.public_exponent), 'n': digits(p.modulus)}
    if n == 'SshHostKeyDSS':
        return 'dss_key', {'alg': alg, 'p': digits(p.prime), 'q': digits(p.order), 'g': digits(p.generator), 'y': digits(p.public_key_value)}
    if n == 'SshHostKeyECDSA':
        from cryptoparser.ssh.key import SshEllipticCurveIdentifier
        cid = [c for c in SshEllipticCurveIdentifier if c.value.named_group == p.named_group]
        if not cid:
            return None
        return 'ecdsa_key', {'alg': alg, 'curve': list(cid[0].value.code.encode('ascii')), 'point': list(p.octet_bit_string)}
    if n == 'SshHostKeyEDDSA':
        return 'eddsa_key', {'alg': alg, 'key': list(p.key_data)}
    return None


def message_abs(o):
    n = type(o).__name__
    if n == 'SshKeyExchangeInit':
        return 'kexinit', {
            'cookie': list(o.cookie), 'kex': names(o.kex_algorithms), 'host_key': names(o.host_key_algorithms),
            'enc_c2s': names(o.encryption_algorithms_client_to_server), 'enc_s2c': names(o.encryption_algorithms_server_to_client),
            'mac_c2s': names(o.mac_algorithms_client_to_server), 'mac_s2c': names(o.mac_algorithms_server_to_client),
            'comp_c2s': names(o.compression_algorithms_client_to_server), 'comp_s2c': names(o.compression_algorithms_server_to_client),
            'lang_c2s': names(o.languages_client_to_server), 'lang_s2c': names(o.languages_server_to_client),
            'first_kex_packet_follows': bool(o.first_kex_packet_follows), 'reserved': digits(o.reserved)}
    if n in ('SshDHKeyExchangeInit', 'SshDHGroupExchangeInit'):
        return 'dh_init', {'code': int(o.get_message_code()), 'e': list(o.ephemeral_public_key)}
    if n in ('SshDHKeyExchangeReply', 'SshDHGroupExchangeReply'):
        try:
            ka = key_abs(o.host_public_key)
        except Exception:  # pylint: disable=broad-except
            ka = None
        return 'dh_reply', {'code': int(o.get_message_code()), 'key_blob': list(bytes(o.host_public_key.key_bytes)),
                            'f': list(o.ephemeral_public_key), 'signature': list(o.signature),
                            'key_kind': ka[0] if ka else 'opaque', 'key': ka[1] if ka else {'alg': []}}
    if n == 'SshDHGroupExchangeRequest':
        return 'gex_request', {'min': digits(o.gex_min), 'n': digits(o.gex_number), 'max': digits(o.gex_max)}
    if n == 'SshDHGroupExchangeGroup':
        return 'gex_group', {'p': list(o.p), 'g': list(o.g)}
    if n == 'SshDisconnectMessage':
        return 'disconnect', {'reason': digits(int(o.reason)), 'description': list(o.description.encode('utf-8')),
                              'language': list(o.language.encode('ascii'))}
    if n == 'SshNewKeys':
        return 'newkeys', {'x': 0}
    if n == 'SshUnimplementedMessage':
        return 'unimplemented', {'seq': digits(o.sequence_number)}
    if n == 'SshProtocolMessage':
        sw = bytes(o.software_version.compose())
        return 'banner', {'proto': list(bytes(o.protocol_version.compose())), 'software': list(sw),
                          'has_comment': o.comment is not None, 'comment': list((o.comment or '').encode('ascii'))}
    if n.startswith('SshHostKey'):
        return key_abs(o)
    return None
