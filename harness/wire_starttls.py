"""Abstract values of the opportunistic-TLS application messages for StartTlsWire.tla."""


def digits(n):
    out = []
    while n:
        out.append(n & 0xff)
        n >>= 8
    return out[::-1]


def flags_value(fs):
    v = 0
    for f in fs:
        v |= int(f)
    return v


def message_abs(o):
    n = type(o).__name__
    if n == 'MySQLRecord':
        return 'mysql_record', {'length': digits(len(o.packet_bytes)), 'sequence': o.packet_number, 'payload': list(o.packet_bytes)}, '-'
    if n == 'MySQLHandshakeV10':
        caps = flags_value(o.capabilities)
        from cryptoparser.tls.mysql import MySQLCapability
        plugin = MySQLCapability.CLIENT_PLUGIN_AUTH in o.capabilities
        return 'mysql_handshake', {
            'protocol_version': int(o.protocol_version), 'server_version': list(o.server_version.encode('ascii')),
            'connection_id': digits(o.connection_id), 'auth_plugin_data': list(o.auth_plugin_data),
            'capabilities_low': digits(caps & 0xffff), 'capabilities_high': digits(caps >> 16),
            'character_set': o.character_set.value.code if hasattr(o.character_set.value, 'code') else int(o.character_set.value),
            'status': digits(flags_value(o.states)), 'plugin_auth': plugin,
            'auth_plugin_data_2': list(o.auth_plugin_data_2 or b''),
            'auth_plugin_name': list((o.auth_plugin_name or '').encode('ascii'))}, '-'
    if n == 'MySQLHandshakeSslRequest':
        from cryptoparser.tls.mysql import MySQLCapability
        p41 = MySQLCapability.CLIENT_PROTOCOL_41 in o.capabilities
        cs = o.character_set
        return 'mysql_ssl_request', {'protocol_41': p41, 'capabilities': digits(flags_value(o.capabilities)),
                                     'max_packet_size': digits(o.max_packet_size),
                                     'character_set': (cs.value.code if hasattr(cs.value, 'code') else int(cs.value)) if cs is not None else 0}, '-'
    if n == 'TPKT':
        return 'tpkt', {'version': o.version, 'total_length': digits(len(o.message) + 4), 'payload': list(o.message)}, '-'
    if n in ('COTPConnectionRequest', 'COTPConnectionConfirm'):
        return 'cotp', {'code': 0xe0 if n.endswith('Request') else 0xd0, 'dst_ref': digits(o.dst_ref), 'src_ref': digits(o.src_ref),
                        'class_option': o.class_option, 'user_data': list(o.user_data)}, 'request' if n.endswith('Request') else 'confirm'
    if n in ('RDPNegotiationRequest', 'RDPNegotiationResponse'):
        return 'rdp_neg', {'type': 1 if n.endswith('Request') else 2, 'flags': flags_value(o.flags), 'protocols': digits(flags_value(o.protocol))}, \
            'request' if n.endswith('Request') else 'response'
    if n.startswith('OpenVpnPacket') and n != 'OpenVpnPacketWrapperTcp':
        has_pid = hasattr(o, 'packet_id')
        return 'openvpn', {'opcode': int(o.get_op_code()), 'key_id': 0, 'session_id': digits(o.session_id),
                           'acks': [digits(a) for a in o.packet_id_array],
                           'remote_session_id': digits(o.remote_session_id or 0), 'has_remote': o.remote_session_id is not None,
                           'has_packet_id': has_pid,
                           'packet_id': digits(getattr(o, 'packet_id', 0) or 0), 'payload': list(getattr(o, 'payload', b'') or b'')}, '-'
    if n == 'OpenVpnPacketWrapperTcp':
        return 'openvpn_tcp', {'length': digits(len(o.payload)), 'payload': list(o.payload)}, '-'
    if n == 'SslRequest':
        return 'pg_ssl_request', {'x': 0}, '-'
    if n == 'Sync':
        return 'pg_sync', {'x': 0}, '-'
    if n == 'LDAPExtendedRequestStartTLS':
        return 'ldap_request', {'message_id': 1}, 'request'
    if n == 'LDAPExtendedResponseStartTLS':
        return 'ldap_response', {'message_id': 1, 'result_code': int(o.result_code)}, 'response'
    return None
