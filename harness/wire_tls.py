"""Abstract (specification-level) value of TLS objects for TlsWire.tla: field values only, no layout."""
import calendar


def code(x):
    v = getattr(x, 'value', None)
    if hasattr(v, 'code'):
        return v.code
    if hasattr(x, 'code') and isinstance(x.code, int):
        return x.code
    return int(x)


def digits(n):
    out = []
    while n:
        out.append(n & 0xff)
        n >>= 8
    return out[::-1]


def epoch(dt):
    return calendar.timegm(dt.utctimetuple())


def ver(pv):
    return pv.version.value.code


def ext_generic(e):
    """an extension inside a hello: its type and its body bytes as the extension composes them"""
    b = bytes(e.compose())
    return {'type': code(e.extension_type), 'body': list(b[4:])}


def ext_abs(e):
    """typed abstract value of one extension, or None when the class is not transcribed in TlsWire.tla"""
    n = type(e).__name__
    t = code(e.extension_type)
    if n == 'TlsExtensionServerNameClient':
        try:
            name = e.host_name.encode('idna')
        except Exception:  # pylint: disable=broad-except
            return None
        return {'k': 'server_name', 'type': t, 'name_type': int(e.name_type), 'host_name': list(name)}
    if n == 'TlsExtensionEllipticCurves':
        return {'k': 'groups', 'type': t, 'codes': [code(c) for c in e.elliptic_curves]}
    if n == 'TlsExtensionECPointFormats':
        return {'k': 'point_formats', 'type': t, 'codes': [code(c) for c in e.point_formats]}
    if n in ('TlsExtensionSignatureAlgorithms', 'TlsExtensionSignatureAlgorithmsCert', 'TlsExtensionDelegatedCredentials'):
        return {'k': 'sig_algs', 'type': t, 'codes': [code(c) for c in e.hash_and_signature_algorithms]}
    if n in ('TlsExtensionApplicationLayerProtocolNegotiation', 'TlsExtensionApplicationLayerProtocolSettings',
             'TlsExtensionNextProtocolNegotiationServer'):
        names = [list(p.value.code.encode('utf-8')) for p in e.protocol_names]
        if n == 'TlsExtensionNextProtocolNegotiationServer':
            return {'k': 'npn_server', 'type': t, 'names': names}
        return {'k': 'alpn', 'type': t, 'names': names}
    if n == 'TlsExtensionSupportedVersionsClient':
        return {'k': 'versions_client', 'type': t, 'codes': [code(v.version) if hasattr(v, 'version') else code(v) for v in e.supported_versions]}
    if n == 'TlsExtensionSupportedVersionsServer':
        return {'k': 'versions_server', 'type': t, 'code': ver(e.selected_version)}
    if n in ('TlsExtensionKeyShareClient', 'TlsExtensionKeyShareReservedClient'):
        ents = []
        for ks in e.key_share_entries:
            if hasattr(ks, 'key_exchange'):
                ents.append({'group': code(ks.group), 'key': list(ks.key_exchange)})
            else:
                ents.append({'group': code(ks.group), 'key': list(ks.data)})
        return {'k': 'key_share_client', 'type': t, 'entries': ents}
    if n == 'TlsExtensionKeyShareServer':
        return {'k': 'key_share_server', 'type': t, 'group': code(e.key_share_entry.group), 'key': list(e.key_share_entry.key_exchange)}
    if n == 'TlsExtensionKeyShareClientHelloRetry':
        return {'k': 'key_share_hrr', 'type': t, 'group': code(e.selected_group)}
    if n == 'TlsExtensionRenegotiationInfo':
        return {'k': 'reneg_info', 'type': t, 'data': list(e.renegotiated_connection)}
    if n == 'TlsExtensionSessionTicket':
        return {'k': 'opaque', 'type': t, 'data': list(e.session_ticket)}
    if n == 'TlsExtensionUnparsed':
        return {'k': 'opaque', 'type': t, 'data': list(e.extension_data)}
    if n == 'TlsExtensionPadding':
        return {'k': 'padding', 'type': t, 'length': e.length}
    if n in ('TlsExtensionEncryptThenMAC', 'TlsExtensionExtendedMasterSecret', 'TlsExtensionSignedCertificateTimestampClient',
             'TlsExtensionNextProtocolNegotiationClient', 'TlsExtensionServerNameServer', 'TlsExtensionChannelId',
             'TlsExtensionShortRecordHeader', 'TlsExtensionCertificateStatusRequestServer'):
        return {'k': 'empty', 'type': t}
    if n == 'TlsExtensionCertificateStatusRequestClient':
        return {'k': 'status_request', 'type': t, 'responders': [list(r) for r in e.responder_id_list],
                'request_extensions': list(e.request_extensions)}
    if n == 'TlsExtensionSignedCertificateTimestampServer':
        scts = []
        for x in e.scts:
            ms = epoch(x.timestamp) * 1000 + x.timestamp.microsecond // 1000
            scts.append({'version': int(x.version), 'log_id': list(x.log.log_id.value), 'timestamp_ms': digits(ms),
                         'extensions': list(x.extensions), 'hash': code(x.signature_algorithm) >> 8,
                         'sig': code(x.signature_algorithm) & 0xff, 'signature': list(x.signature)})
        return {'k': 'sct', 'type': t, 'scts': scts}
    if n == 'TlsExtensionRecordSizeLimit':
        return {'k': 'record_size_limit', 'type': t, 'limit': e.record_size_limit}
    if n == 'TlsExtensionPskKeyExchangeModes':
        return {'k': 'psk_modes', 'type': t, 'codes': [code(c) for c in e.key_exchange_modes]}
    if n == 'TlsExtensionCompressCertificate':
        return {'k': 'compress_cert', 'type': t, 'codes': [code(c) for c in e.compression_algorithms]}
    if n == 'TlsExtensionTokenBinding':
        return {'k': 'token_binding', 'type': t, 'major': e.protocol_version.major, 'minor': e.protocol_version.minor,
                'codes': [code(c) for c in e.parameters]}
    return None


def message_abs(o):
    """(kind, abstract value) or None"""
    n = type(o).__name__
    if n == 'TlsRecord':
        return 'record', {'content_type': int(o.content_type), 'version': ver(o.protocol_version), 'fragment': list(o.fragment)}
    if n == 'TlsAlertMessage':
        return 'alert', {'level': int(o.level), 'description': int(o.description)}
    if n == 'TlsChangeCipherSpecMessage':
        return 'ccs', {'x': 0}
    if n == 'TlsHandshakeClientHello':
        return 'client_hello', {
            'version': ver(o.protocol_version), 'time': digits(epoch(o.random.time)), 'random': list(o.random.random),
            'session_id': list(o.session_id), 'cipher_suites': [code(c) for c in o.cipher_suites],
            'fallback_scsv': bool(o.fallback_scsv), 'empty_renegotiation_info_scsv': bool(o.empty_renegotiation_info_scsv),
            'compression_methods': [code(c) for c in o.compression_methods],
            'extensions': [ext_generic(e) for e in o.extensions]}
    if n == 'TlsHandshakeServerHello':
        return 'server_hello', {
            'version': ver(o.protocol_version), 'time': digits(epoch(o.random.time)), 'random': list(o.random.random),
            'session_id': list(o.session_id), 'cipher_suite': code(o.cipher_suite),
            'compression_method': code(o.compression_method), 'extensions': [ext_generic(e) for e in o.extensions]}
    if n == 'TlsHandshakeCertificate':
        return 'certificate', {'certificates': [list(c.certificate) for c in o.certificate_chain]}
    if n == 'TlsHandshakeServerHelloDone':
        return 'server_hello_done', {'x': 0}
    if n == 'TlsHandshakeServerKeyExchange':
        return 'server_key_exchange', {'params': list(o.param_bytes)}
    if n == 'TlsHandshakeCertificateRequest':
        sa = o.supported_signature_algorithms
        return 'certificate_request', {'types': [int(x) for x in o.certificate_types], 'has_sig_algs': sa is not None,
                                       'sig_algs': [code(x) for x in (sa or [])],
                                       'authorities': [list(dn) for dn in o.certificate_authorities]}
    if n == 'TlsHandshakeCertificateStatus':
        return 'certificate_status', {'status_type': int(o.status_type), 'response': list(o.status)}
    if n == 'TlsHandshakeHelloRetryRequest':
        return 'hello_retry_request', {
            'version': ver(o.protocol_version), 'session_id': list(o.session_id), 'cipher_suite': code(o.cipher_suite),
            'compression_method': code(o.compression_method), 'extensions': [ext_generic(e) for e in o.extensions],
            'random': list(bytes(o.random_bytes.compose())),
            'random_is_hrr_value': bytes(o.random_bytes.compose()) == bytes([207, 33, 173, 116, 229, 154, 97, 17, 190, 29, 140, 2, 30, 101, 184, 145,
                                                                             194, 162, 17, 22, 122, 187, 140, 94, 7, 158, 9, 226, 200, 168, 51, 156])}
    if n == 'TlsApplicationDataMessage':
        return 'application_data', {'data': list(o.data)}
    if n == 'SslRecord':
        m = o.message
        mn = type(m).__name__
        if mn == 'SslErrorMessage':
            return 'ssl2_error', {'error': int(m.error_type)}
        if mn == 'SslHandshakeClientHello':
            return 'ssl2_client_hello', {'version': 2, 'cipher_kinds': [code(c) for c in m.cipher_kinds],
                                         'session_id': list(m.session_id), 'challenge': list(m.challenge)}
        if mn == 'SslHandshakeServerHello':
            return 'ssl2_server_hello', {'version': 2, 'session_id_hit': bool(m.session_id_hit), 'certificate': list(m.certificate),
                                         'cipher_kinds': [code(c) for c in m.cipher_kinds], 'connection_id': list(m.connection_id)}
        return None
    if n.startswith('TlsExtension'):
        a = ext_abs(o)
        if a is not None:
            return 'extension', a
    return None
