------------------------------ MODULE CodePoint ------------------------------
(* C10 - every wire code point is decoded faithfully or preserved verbatim.

   A coded enumeration is a table  name -> code  of width w bytes.  For every value c of
   the code space 0 .. 256^w - 1 the decoder yields
        member k      (the k-th row of the table)
        preserved c'  (an "unknown / GREASE" wrapper carrying a code)
        invalid       (rejected with InvalidValue)
   Rules (from the property text; RFC 8701 for GREASE):
     Injective   two rows carry the same code only if the protocol assigns one number to both
     Faithful    a code in the table decodes to THE row with that code and re-encodes to the same bytes
     NoRedirect  a code not in the table is preserved with c' = c (bit for bit) or invalid;
                 it is never mapped to a row (which would carry a different code)
     InList      in a list container the k-th item corresponds to the k-th code: nothing dropped,
                 reordered or redirected - or the whole list is rejected
   The decoder outcomes are given as arrays over the whole code space (index c + 1):
        k > 0 member k,  0 invalid,  -1 preserved with c' = c,  < -1 anomalies reported by the harness. *)
EXTENDS Integers, Sequences, FiniteSets

IsGrease8(c)  == c % 16 = 10 /\ (c \div 16) % 2 = 0          \* RFC 8701: 0x0A, 0x1A .. 0xFA (one byte: 0x0B..: see note)
IsGrease16(c) == (c \div 256) = (c % 256) /\ (c % 16) = 10   \* 0x0A0A, 0x1A1A, .. 0xFAFA

Injective(table, allow) == \A i, j \in 1..Len(table) :
      i < j /\ table[i].code = table[j].code => <<table[i].name, table[j].name>> \in allow \/ <<table[j].name, table[i].name>> \in allow

\* rule for row m of the table
RowFaithful(table, single, m) == LET c == table[m].code IN
      single[c + 1] > 0 /\ table[single[c + 1]].code = c
\* rule for code c of the space
CodeOk(table, single, c) == LET r == single[c + 1] IN
      \/ r > 0 /\ r <= Len(table) /\ table[r].code = c      \* decoded to a row carrying exactly this code
      \/ r = 0                                               \* rejected
      \/ r = -1                                              \* preserved verbatim
=============================================================================
