------------------------------- MODULE CodeTable -------------------------------
(* C10 - the numbers the protocol documents assign to the names of the enumerations that are defined in this repository
   (the large registries - cipher suites, named groups, extension types, algorithms - live in cryptodatahub and are outside
   it).  Written from the documents, not from the code:

     TLS ContentType / AlertLevel / AlertDescription / HandshakeType / ClientCertificateType / ECCurveType /
     CertificateStatusType / NameType       RFC 5246, RFC 8446 B, RFC 6066, RFC 8422, RFC 7507, RFC 7301, IANA TLS parameters
     SSL 2.0 message types and error codes   SSL 2.0 draft (Hickman 1995) 5.x: NO-CIPHER 1, NO-CERTIFICATE 2, BAD-CERTIFICATE 4,
                                             UNSUPPORTED-CERTIFICATE-TYPE 6
     SSH message numbers, disconnect reasons RFC 4253 12 / 11.1, RFC 4419 5
     DNSKEY flags                            RFC 4034 2.1.1 (bit 7 = 0x0100, bit 15 = 0x0001), RFC 5011 7 (bit 8 = 0x0080)
     LDAP result codes                       RFC 4511 4.1.9
     MySQL capability and status flags       MySQL client/server protocol (include/mysql_com.h)
     OpenVPN opcodes                         OpenVPN protocol (ssl_pkt.h)
     X.224 TPDU codes                        ITU-T X.224 13.x (high nibble); RDP negotiation constants [MS-RDPBCGR] 2.2.1.1.1 / 2.2.1.2.1

   A table is a set of <<name, number>> pairs; names are the library's member names.  A member whose name is not listed
   here is not judged (reported as unlisted). *)
EXTENDS Integers

Registry(enum) ==
  CASE enum = "TlsContentType" -> {<<"CHANGE_CIPHER_SPEC", 20>>, <<"ALERT", 21>>, <<"HANDSHAKE", 22>>, <<"APPLICATION_DATA", 23>>, <<"HEARTBEAT", 24>>}
    [] enum = "TlsAlertLevel" -> {<<"WARNING", 1>>, <<"FATAL", 2>>}
    [] enum = "TlsAlertDescription" ->
         {<<"CLOSE_NOTIFY", 0>>, <<"UNEXPECTED_MESSAGE", 10>>, <<"BAD_RECORD_MAC", 20>>, <<"DECRYPTION_FAILED", 21>>, <<"RECORD_OVERFLOW", 22>>,
          <<"DECOMPRESSION_FAILURE", 30>>, <<"HANDSHAKE_FAILURE", 40>>, <<"NO_CERTIFICATE", 41>>, <<"BAD_CERTIFICATE", 42>>,
          <<"UNSUPPORTED_CERTIFICATE", 43>>, <<"CERTIFICATE_REVOKED", 44>>, <<"CERTIFICATE_EXPIRED", 45>>, <<"CERTIFICATE_UNKNOWN", 46>>,
          <<"ILLEGAL_PARAMETER", 47>>, <<"UNKNOWN_CA", 48>>, <<"ACCESS_DENIED", 49>>, <<"DECODE_ERROR", 50>>, <<"DECRYPT_ERROR", 51>>,
          <<"EXPORT_RESTRICTION", 60>>, <<"PROTOCOL_VERSION", 70>>, <<"INSUFFICIENT_SECURITY", 71>>, <<"INTERNAL_ERROR", 80>>,
          <<"INAPPROPRIATE_FALLBACK", 86>>, <<"USER_CANCELED", 90>>, <<"NO_RENEGOTIATION", 100>>, <<"MISSING_EXTENSION", 109>>,
          <<"UNSUPPORTED_EXTENSION", 110>>, <<"CERTIFICATE_UNOBTAINABLE", 111>>, <<"UNRECOGNIZED_NAME", 112>>,
          <<"BAD_CERTIFICATE_STATUS_RESPONSE", 113>>, <<"BAD_CERTIFICATE_HASH_VALUE", 114>>, <<"UNKNOWN_PSK_IDENTITY", 115>>,
          <<"CERTIFICATE_REQUIRED", 116>>, <<"NO_APPLICATION_PROTOCOL", 120>>}
    [] enum = "TlsHandshakeType" ->
         {<<"HELLO_REQUEST", 0>>, <<"CLIENT_HELLO", 1>>, <<"SERVER_HELLO", 2>>, <<"HELLO_VERIFY_REQUEST", 3>>, <<"NEW_SESSION_TICKET", 4>>,
          <<"END_OF_EARLY_DATA", 5>>, <<"HELLO_RETRY_REQUEST", 6>>, <<"ENCRYPTED_EXTENSIONS", 8>>, <<"CERTIFICATE", 11>>,
          <<"SERVER_KEY_EXCHANGE", 12>>, <<"CERTIFICATE_REQUEST", 13>>, <<"SERVER_HELLO_DONE", 14>>, <<"CERTIFICATE_VERIFY", 15>>,
          <<"CLIENT_KEY_EXCHANGE", 16>>, <<"FINISHED", 20>>, <<"CLIENT_CERTIFICATE_URL", 21>>, <<"CERTIFICATE_STATUS", 22>>,
          <<"SUPPLEMENTAL_DATA", 23>>, <<"KEY_UPDATE", 24>>, <<"COMPRESSED_CERTIFICATE", 25>>, <<"EKT_KEY", 26>>, <<"MESSAGE_HASH", 254>>}
    [] enum = "TlsClientCertificateType" ->
         {<<"RSA_SIGN", 1>>, <<"DSS_SIGN", 2>>, <<"RSA_FIXED_DH", 3>>, <<"DSS_FIXED_DH", 4>>, <<"RSA_EPHEMERAL_DH", 5>>, <<"DSS_EPHEMERAL_DH", 6>>,
          <<"FORTEZZA_DMS", 20>>, <<"ECDSA_SIGN", 64>>, <<"RSA_FIXED_ECDH", 65>>, <<"ECDSA_FIXED_ECDH", 66>>, <<"GOST_SIGN256", 67>>, <<"GOST_SIGN512", 68>>}
    [] enum = "TlsECCurveType" -> {<<"EXPLICIT_PRIME", 1>>, <<"EXPLICIT_CHAR2", 2>>, <<"NAMED_CURVE", 3>>}
    [] enum = "TlsCertificateStatusType" -> {<<"OCSP", 1>>, <<"OCSP_MULTI", 2>>}
    [] enum = "TlsServerNameType" -> {<<"HOST_NAME", 0>>}
    [] enum = "TlsChangeCipherSpecType" -> {<<"CHANGE_CIPHER_SPEC", 1>>}
    [] enum = "SslMessageType" ->
         {<<"ERROR", 0>>, <<"CLIENT_HELLO", 1>>, <<"CLIENT_MASTER_KEY", 2>>, <<"CLIENT_FINISHED", 3>>, <<"SERVER_HELLO", 4>>,
          <<"SERVER_VERIFY", 5>>, <<"SERVER_FINISHED", 6>>, <<"REQUEST_CERTIFICATE", 7>>, <<"CLIENT_CERTIFICATE", 8>>}
    [] enum = "SslErrorType" ->
         {<<"NO_CIPHER_ERROR", 1>>, <<"NO_CERTIFICATE_ERROR", 2>>, <<"BAD_CERTIFICATE_ERROR", 4>>, <<"UNSUPPORTED_CERTIFICATE_TYPE_ERROR", 6>>}
    [] enum = "SslCertificateType" -> {<<"X509_CERTIFICATE", 1>>}
    [] enum = "SslAuthenticationType" -> {<<"MD5_WITH_RSA_ENCRYPTION", 1>>}
    [] enum = "SshMessageCode" ->
         {<<"DISCONNECT", 1>>, <<"IGNORE", 2>>, <<"UNIMPLEMENTED", 3>>, <<"DEBUG", 4>>, <<"SERVICE_REQUEST", 5>>, <<"SERVICE_ACCEPT", 6>>,
          <<"KEXINIT", 20>>, <<"NEWKEYS", 21>>, <<"DH_KEX_INIT", 30>>, <<"DH_KEX_REPLY", 31>>, <<"DH_GEX_REQUEST_OLD", 30>>, <<"DH_GEX_GROUP", 31>>,
          <<"DH_GEX_INIT", 32>>, <<"DH_GEX_REPLY", 33>>, <<"DH_GEX_REQUEST", 34>>}
    [] enum = "SshReasonCode" ->
         {<<"HOST_NOT_ALLOWED_TO_CONNECT", 1>>, <<"PROTOCOL_ERROR", 2>>, <<"KEY_EXCHANGE_FAILED", 3>>, <<"RESERVED", 4>>, <<"MAC_ERROR", 5>>,
          <<"COMPRESSION_ERROR", 6>>, <<"SERVICE_NOT_AVAILABLE", 7>>, <<"PROTOCOL_VERSION_NOT_SUPPORTED", 8>>, <<"HOST_KEY_NOT_VERIFIABLE", 9>>,
          <<"CONNECTION_LOST", 10>>, <<"BY_APPLICATION", 11>>, <<"TOO_MANY_CONNECTIONS", 12>>, <<"AUTH_CANCELLED_BY_USER", 13>>,
          <<"NO_MORE_AUTH_METHODS_AVAILABLE", 14>>, <<"ILLEGAL_USER_NAME", 15>>}
    [] enum = "SshVersion" -> {<<"SSH1", 1>>, <<"SSH2", 2>>}
    [] enum = "DnsSecFlag" -> {<<"DNS_ZONE_KEY", 256>>, <<"REVOKE", 128>>, <<"SECURE_ENTRY_POINT", 1>>}
    [] enum = "LDAPResultCode" ->
         {<<"SUCCESS", 0>>, <<"OPERATIONS_ERROR", 1>>, <<"PROTOCOL_ERROR", 2>>, <<"TIME_LIMIT_EXCEEDED", 3>>, <<"SIZE_LIMIT_EXCEEDED", 4>>,
          <<"COMPARE_FALSE", 5>>, <<"COMPARE_TRUE", 6>>, <<"AUTH_METHOD_NOT_SUPPORTED", 7>>, <<"STRONGER_AUTH_REQUIRED", 8>>, <<"REFERRAL", 10>>,
          <<"ADMIN_LIMIT_EXCEEDED", 11>>, <<"UNAVAILABLE_CRITICAL_EXTENSION", 12>>, <<"CONFIDENTIALITY_REQUIRED", 13>>,
          <<"SASL_BIND_IN_PROGRESS", 14>>, <<"NO_SUCH_ATTRIBUTE", 16>>, <<"UNDEFINED_ATTRIBUTE_TYPE", 17>>, <<"INAPPROPRIATE_MATCHING", 18>>,
          <<"CONSTRAINT_VIOLATION", 19>>, <<"ATTRIBUTE_OR_VALUE_EXISTS", 20>>, <<"INVALID_ATTRIBUTE_SYNTAX", 21>>, <<"NO_SUCH_OBJECT", 32>>,
          <<"ALIAS_PROBLEM", 33>>, <<"INVALID_DN_SYNTAX", 34>>, <<"ALIAS_DEREFERENCING_PROBLEM", 36>>, <<"INAPPROPRIATE_AUTHENTICATION", 48>>,
          <<"INVALID_CREDENTIALS", 49>>, <<"INSUFFICIENT_ACCESS_RIGHTS", 50>>, <<"BUSY", 51>>, <<"UNAVAILABLE", 52>>, <<"UNWILLING_TO_PERFORM", 53>>,
          <<"LOOP_DETECT", 54>>, <<"NAMING_VIOLATION", 64>>, <<"OBJECT_CLASS_VIOLATION", 65>>, <<"NOT_ALLOWED_ON_NON_LEAF", 66>>,
          <<"NOT_ALLOWED_ON_RDN", 67>>, <<"ENTRY_ALREADY_EXISTS", 68>>, <<"OBJECT_CLASS_MODS_PROHIBITED", 69>>, <<"AFFECTS_MULTIPLE_DSAS", 71>>,
          <<"OTHER", 80>>}
    [] enum = "LDAPClass" -> {<<"UNIVERSAL", 0>>, <<"APPLICATION", 1>>, <<"CONTEXT", 2>>, <<"PRIVATE", 3>>}
    [] enum = "MySQLCapability" ->
         {<<"CLIENT_LONG_PASSWORD", 1>>, <<"CLIENT_FOUND_ROWS", 2>>, <<"CLIENT_LONG_FLAG", 4>>, <<"CLIENT_CONNECT_WITH_DB", 8>>, <<"CLIENT_NO_SCHEMA", 16>>,
          <<"CLIENT_COMPRESS", 32>>, <<"CLIENT_ODBC", 64>>, <<"CLIENT_LOCAL_FILES", 128>>, <<"CLIENT_IGNORE_SPACE", 256>>, <<"CLIENT_PROTOCOL_41", 512>>,
          <<"CLIENT_INTERACTIVE", 1024>>, <<"CLIENT_SSL", 2048>>, <<"CLIENT_IGNORE_SIGPIPE", 4096>>, <<"CLIENT_TRANSACTIONS", 8192>>,
          <<"CLIENT_RESERVED", 16384>>, <<"CLIENT_SECURE_CONNECTION", 32768>>, <<"CLIENT_MULTI_STATEMENTS", 65536>>, <<"CLIENT_MULTI_RESULTS", 131072>>,
          <<"CLIENT_PS_MULTI_RESULTS", 262144>>, <<"CLIENT_PLUGIN_AUTH", 524288>>, <<"CLIENT_CONNECT_ATTRS", 1048576>>,
          <<"CLIENT_PLUGIN_AUTH_LENENC_CLIENT_DATA", 2097152>>, <<"CLIENT_CAN_HANDLE_EXPIRED_PASSWORDS", 4194304>>, <<"CLIENT_SESSION_TRACK", 8388608>>,
          <<"CLIENT_DEPRECATE_EOF", 16777216>>}
    [] enum = "MySQLStatusFlag" ->
         {<<"SERVER_STATUS_IN_TRANS", 1>>, <<"SERVER_STATUS_AUTOCOMMIT", 2>>, <<"SERVER_MORE_RESULTS_EXISTS", 8>>, <<"SERVER_STATUS_NO_GOOD_INDEX_USED", 16>>,
          <<"SERVER_STATUS_NO_INDEX_USED", 32>>, <<"SERVER_STATUS_CURSOR_EXISTS", 64>>, <<"SERVER_STATUS_LAST_ROW_SENT", 128>>,
          <<"SERVER_STATUS_DB_DROPPED", 256>>, <<"SERVER_STATUS_NO_BACKSLASH_ESCAPES", 512>>, <<"SERVER_STATUS_METADATA_CHANGED", 1024>>,
          <<"SERVER_QUERY_WAS_SLOW", 2048>>, <<"SERVER_PS_OUT_PARAMS", 4096>>, <<"SERVER_STATUS_IN_TRANS_READONLY", 8192>>,
          <<"SERVER_SESSION_STATE_CHANGED", 16384>>}
    [] enum = "MySQLVersion" -> {<<"MYSQL_9", 9>>, <<"MYSQL_10", 10>>}
    [] enum = "OpenVpnOpCode" ->
         {<<"HARD_RESET_CLIENT_V1", 1>>, <<"HARD_RESET_SERVER_V1", 2>>, <<"SOFT_RESET_V1", 3>>, <<"CONTROL_V1", 4>>, <<"ACK_V1", 5>>, <<"DATA_V1", 6>>,
          <<"HARD_RESET_CLIENT_V2", 7>>, <<"HARD_RESET_SERVER_V2", 8>>, <<"DATA_V2", 9>>}
    [] enum = "COTPType" ->
         {<<"CONNECTION_REQUEST", 14>>, <<"CONNECTION_CONFIRM", 13>>, <<"DISCONNECT_REQUEST", 8>>, <<"DISCONNECT_CONFIRM", 12>>, <<"DATA", 15>>,
          <<"EXPEDITED_DATA", 1>>, <<"DATA_ACKNOWLEDGEMENT", 6>>, <<"EXPEDITED_DATA_ANOWLEDGEMENT", 2>>, <<"REJECT", 5>>, <<"ERROR", 7>>}
    [] enum = "RDPPacketType" -> {<<"NEG_REQ", 1>>, <<"NEG_RSP", 2>>, <<"NEG_FAILURE", 3>>}
    [] enum = "RDPNegotiationRequestFlags" ->
         {<<"RESTRICTED_ADMIN_MODE_REQUIRED", 1>>, <<"REDIRECTED_AUTHENTICATION_MODE_REQUIRED", 2>>, <<"CORRELATION_INFO_PRESENT", 8>>}
    [] enum = "RDPNegotiationResponseFlags" ->
         {<<"EXTENDED_CLIENT_DATA_SUPPORTED", 1>>, <<"DYNVC_GFX_PROTOCOL_SUPPORTED", 2>>, <<"NEGRSP_FLAG_RESERVED", 4>>,
          <<"RESTRICTED_ADMIN_MODE_SUPPORTED", 8>>, <<"REDIRECTED_AUTHENTICATION_MODE_SUPPORTED", 16>>}
    [] enum = "RDPProtocol" -> {<<"RDP", 0>>, <<"SSL", 1>>, <<"HYBRID", 2>>, <<"RDSTLS", 4>>, <<"HYBRID_EX", 8>>}
    [] enum = "CtVersion" -> {<<"V1", 0>>}
    [] OTHER -> {}

\* names and keywords that are TEXT on the wire (RFC 7208 SPF, RFC 7489 DMARC, RFC 8461, RFC 8460, HTTP field names of the
\* respective RFCs, Referrer Policy, CSP Level 3 directive names and keywords, OpenSSH PROTOCOL.certkeys option names)
StrRegistry(enum) ==
  CASE enum = "SpfMechanism" -> {<<"ALL", "all">>, <<"INCLUDE", "include">>, <<"A", "a">>, <<"MX", "mx">>, <<"PTR", "ptr">>, <<"IP4", "ip4">>, <<"IP6", "ip6">>, <<"EXISTS", "exists">>}
    [] enum = "SpfModifier" -> {<<"REDIRECT", "redirect">>, <<"EXP", "exp">>}
    [] enum = "SpfQualifier" -> {<<"PASS", "+">>, <<"FAIL", "-">>, <<"SOFTFAIL", "~">>, <<"NEUTRAL", "?">>}
    [] enum = "SpfVersion" -> {<<"SPF1", "spf1">>}
    [] enum = "DmarcAlignment" -> {<<"RELAXED", "r">>, <<"STRICT", "s">>}
    [] enum = "DmarcFailureReportingFormat" -> {<<"AUTHENTICATION_FAILURE_REPORTING_FORMAT", "afrf">>}
    [] enum = "DmarcFailureReportingOption" -> {<<"ALL_FAILURE", "0">>, <<"ANY_FAILURE", "1">>, <<"DKIM_FAILURE", "d">>, <<"SPF_FAILURE", "s">>}
    [] enum = "DmarcPolicyOption" -> {<<"NONE", "none">>, <<"QUARANTINE", "quarantine">>, <<"REJECT", "reject">>}
    [] enum = "DmarcPolicyVersion" -> {<<"DMARC1", "DMARC1">>}
    [] enum = "MtaStsPolicyVersion" -> {<<"STSV1", "STSv1">>}
    [] enum = "TlsRptVersion" -> {<<"TLSRPTV1", "TLSRPTv1">>}
    [] enum = "HttpHeaderFieldName" ->
         {<<"AGE", "age">>, <<"CACHE_CONTROL", "cache-control">>, <<"CONTENT_TYPE", "content-type">>, <<"CONTENT_SECURITY_POLICY", "content-security-policy">>,
          <<"CONTENT_SECURITY_POLICY_REPORT_ONLY", "content-security-policy-report-only">>, <<"DATE", "date">>, <<"ETAG", "etag">>, <<"EXPECT_CT", "expect-ct">>,
          <<"EXPECT_STAPLE", "expect-staple">>, <<"EXPIRES", "expires">>, <<"LAST_MODIFIED", "last-modified">>, <<"NETWORK_ERROR_LOGGING", "nel">>,
          <<"PRAGMA", "pragma">>, <<"PUBLIC_KEY_PINNING", "public-key-pinning">>, <<"SERVER", "server">>, <<"SET_COOKIE", "set-cookie">>,
          <<"REFERRER_POLICY", "referrer-policy">>, <<"STRICT_TRANSPORT_SECURITY", "strict-transport-security">>,
          <<"X_CONTENT_SECURITY_POLICY", "x-content-security-policy">>, <<"X_CONTENT_TYPE_OPTIONS", "x-content-type-options">>,
          <<"X_FRAME_OPTIONS", "x-frame-options">>, <<"X_XSS_PROTECTION", "x-xss-protection">>}
    [] enum = "HttpHeaderReferrerPolicy" ->
         {<<"NO_REFERRER", "no-referrer">>, <<"NO_REFERRER_WHEN_DOWNGRADE", "no-referrer-when-downgrade">>, <<"ORIGIN", "origin">>,
          <<"ORIGIN_WHEN_CROSS_ORIGIN", "origin-when-cross-origin">>, <<"SAME_ORIGIN", "same-origin">>, <<"STRICT_ORIGIN", "strict-origin">>,
          <<"STRICT_ORIGIN_WHEN_CROSS_ORIGIN", "strict-origin-when-cross-origin">>, <<"UNSAFE_URL", "unsafe-url">>}
    [] enum = "HttpHeaderXContentTypeOptions" -> {<<"NOSNIFF", "nosniff">>}
    [] enum = "HttpHeaderXFrameOptions" -> {<<"DENY", "DENY">>, <<"SAMEORIGIN", "SAMEORIGIN">>}
    [] enum = "HttpHeaderXXSSProtectionMode" -> {<<"BLOCK", "block">>}
    [] enum = "HttpHeaderXXSSProtectionState" -> {<<"ENABLED", "1">>, <<"DISABLED", "0">>}
    [] enum = "HttpHeaderPragma" -> {<<"NO_CACHE", "no-cache">>}
    [] enum = "ContentSecurityPolicyDirectiveType" ->
         {<<"BASE_URI", "base-uri">>, <<"BLOCK_ALL_MIXED_CONTENT", "block-all-mixed-content">>, <<"CHILD_SRC", "child-src">>, <<"CONNECT_SRC", "connect-src">>,
          <<"DEFAULT_SRC", "default-src">>, <<"FONT_SRC", "font-src">>, <<"FORM_ACTION", "form-action">>, <<"FRAME_ANCESTORS", "frame-ancestors">>,
          <<"FRAME_SRC", "frame-src">>, <<"IMG_SRC", "img-src">>, <<"MANIFEST_SRC", "manifest-src">>, <<"MEDIA_SRC", "media-src">>, <<"OBJECT_SRC", "object-src">>,
          <<"PLUGIN_TYPES", "plugin-types">>, <<"PREFETCH_SRC", "prefetch-src">>, <<"REFERRER", "referrer">>, <<"REPORT_TO", "report-to">>,
          <<"REPORT_URI", "report-uri">>, <<"REQUIRE_TRUSTED_TYPES_FOR", "require-trusted-types-for">>, <<"SANDBOX", "sandbox">>, <<"SCRIPT_SRC", "script-src">>,
          <<"SCRIPT_SRC_ATTR", "script-src-attr">>, <<"SCRIPT_SRC_ELEM", "script-src-elem">>, <<"STYLE_SRC", "style-src">>, <<"STYLE_SRC_ATTR", "style-src-attr">>,
          <<"STYLE_SRC_ELEM", "style-src-elem">>, <<"TRUSTED_TYPES", "trusted-types">>, <<"UPGRADE_INSECURE_REQUESTS", "upgrade-insecure-requests">>,
          <<"WEBRTC", "webrtc">>, <<"WORKER_SRC", "worker-src">>}
    [] enum = "ContentSecurityPolicySourceKeyword" ->
         {<<"NONE", "'none'">>, <<"REPORT_SAMPLE", "'report-sample'">>, <<"SELF", "'self'">>, <<"STRICT_DYNAMIC", "'strict-dynamic'">>,
          <<"UNSAFE_ALLOW_REDIRECTS", "'unsafe-allow-redirects'">>, <<"UNSAFE_EVAL", "'unsafe-eval'">>, <<"UNSAFE_HASHES", "'unsafe-hashes'">>,
          <<"UNSAFE_INLINE", "'unsafe-inline'">>, <<"WASM_UNSAFE_EVAL", "'wasm-unsafe-eval'">>}
    [] enum = "ContentSecurityPolicySourceHashType" -> {<<"SHA2_256", "sha256">>, <<"SHA2_384", "sha384">>, <<"SHA2_512", "sha512">>}
    [] enum = "MimeTypeRegistry" ->
         {<<"APPLICATION", "application">>, <<"AUDIO", "audio">>, <<"FONT", "font">>, <<"EXAMPLE", "example">>, <<"IMAGE", "image">>, <<"MESSAGE", "message">>,
          <<"MODEL", "model">>, <<"MULTIPART", "multipart">>, <<"TEXT", "text">>, <<"VIDEO", "video">>}
    [] enum = "SshCertExtensionName" ->
         {<<"FORCE_COMMAND", "force-command">>, <<"SOURCE_ADDRESS", "source-address">>, <<"PERMIT_X11_FORWARDING", "permit-X11-forwarding">>,
          <<"PERMIT_AGENT_FORWARDING", "permit-agent-forwarding">>, <<"PERMIT_PORT_FORWARDING", "permit-port-forwarding">>, <<"PERMIT_PTY", "permit-pty">>,
          <<"PERMIT_USER_RC", "permit-user-rc">>}
    [] OTHER -> {}
StrListed(enum, name) == \E p \in StrRegistry(enum) : p[1] = name
StrAssigned(enum, name) == (CHOOSE p \in StrRegistry(enum) : p[1] = name)[2]

Listed(enum, name) == \E p \in Registry(enum) : p[1] = name
Assigned(enum, name) == (CHOOSE p \in Registry(enum) : p[1] = name)[2]
=============================================================================
