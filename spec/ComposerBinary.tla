---------------------------- MODULE ComposerBinary ----------------------------
(* The binary composer engine AS CODED (cryptoparser/common/parse.py ComposerBinary): an output buffer that only grows;
   one operator per public primitive giving what the call appends - [k |-> "ok", app |-> bytes] - or that it refuses the
   value with "invalid value" and appends NOTHING (every primitive is atomic: a value that does not fit its field leaves
   the buffer as it was, also in the middle of an array).

   Values that can exceed 31 bits are digit strings (Prim); byte orders are Prim's "!", ">", "<", "=".
   Switches (FALSE = the current tree):
     Wrap3       the 3-byte overflow guard is missing: 2^24 and above are written modulo 2^24 (the tree before d67dba6)
     HalfArrays  an array is appended item by item, so the items before an unencodable one stay in the buffer
   MC_ComposerBinary rejects both. *)
EXTENDS Prim

CONSTANTS Wrap3, HalfArrays

Ok(b)  == [k |-> "ok", app |-> b]
Inv    == [k |-> "INV", app |-> <<>>]
Widths == {1, 2, 3, 4, 8}

\* the last w digits of d (what a missing overflow guard would write)
LowDigits(d, w) == IF Len(d) <= w THEN d ELSE SubSeq(d, Len(d) - w + 1, Len(d))
Numeric(d, w, order) ==
   IF w \notin Widths THEN Inv
   ELSE IF Len(d) > w THEN (IF Wrap3 /\ w = 3 /\ Len(d) = 4 THEN Ok(Enc(LowDigits(d, 3), 3, order)) ELSE Inv)
   ELSE Ok(Enc(d, w, order))
RECURSIVE ArrayFrom(_, _, _, _)
ArrayFrom(ds, w, order, acc) ==
   IF ds = <<>> THEN Ok(acc)
   ELSE LET r == Numeric(Head(ds), w, order) IN
        IF r.k # "ok" THEN (IF HalfArrays THEN [k |-> "INV", app |-> acc] ELSE Inv)
        ELSE ArrayFrom(Tail(ds), w, order, acc \o r.app)
NumericArray(ds, w, order) == ArrayFrom(ds, w, order, <<>>)
\* length-prefixed bytes / string: the length must fit the prefix
Prefixed(lenDigits, body, w, order) ==
   LET h == Numeric(lenDigits, w, order) IN IF h.k # "ok" THEN Inv ELSE Ok(h.app \o body)
Raw(body) == Ok(body)
NulTerminated(body) == Ok(body \o <<0>>)
SshMp(neg, mag) == Ok(SshMpint(neg, mag))
FixedMp(mag, n) == LET r == FixedMpint(mag, n) IN IF r = Invalid THEN Inv ELSE Ok(r)
=============================================================================
