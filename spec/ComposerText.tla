----------------------------- MODULE ComposerText -----------------------------
(* The text composer engine AS CODED (cryptoparser/common/parse.py ComposerBase._compose_string_array and ComposerText):
   an output buffer that only grows; one operator per public primitive giving what the call appends -
   [k |-> "ok", app |-> characters] - or that it refuses ("INV" invalid value, "TYPE" invalid type) and appends NOTHING.
   Texts are sequences of character codes.

   A list is composed AS CODED by appending every item followed by the separator and cutting the last separator off
   (Cat, Strip); Join is what that is meant to be.  MC_ComposerText shows the two agree, and - together with the text list
   engine ParserText - for exactly which item lists the composed text parses back to the items (Recoverable): the
   composer checks none of these conditions, which is where the recorded C01 findings about separator characters
   inside values come from.

   Switch (FALSE = the current tree):
     KeepLastSep   the cut is missing: a list ends with its separator.  MC_ComposerText rejects it. *)
EXTENDS Integers, Sequences

CONSTANT KeepLastSep

Ok(b) == [k |-> "ok", app |-> b]
Inv   == [k |-> "INV", app |-> <<>>]
Typ   == [k |-> "TYPE", app |-> <<>>]

RECURSIVE DecDigits(_)
DecDigits(n) == IF n < 10 THEN <<48 + n>> ELSE DecDigits(n \div 10) \o <<48 + (n % 10)>>
\* '{:d}'.format(value)
Decimal(neg, n) == (IF neg THEN <<45>> ELSE <<>>) \o DecDigits(n)

RECURSIVE Cat(_, _)
Cat(items, sep) == IF items = <<>> THEN <<>> ELSE Head(items) \o sep \o Cat(Tail(items), sep)
\* python: s[:len(s) - n]  (an empty list gives s = '' and ''[:-n] = '')
Strip(s, n) == IF KeepLastSep THEN s ELSE SubSeq(s, 1, Len(s) - n)
AsCodedJoin(items, sep) == Strip(Cat(items, sep), Len(sep))

RECURSIVE Join(_, _)
Join(items, sep) == IF items = <<>> THEN <<>>
                    ELSE IF Len(items) = 1 THEN items[1] ELSE items[1] \o sep \o Join(Tail(items), sep)

\* the primitives
CString(text)            == Ok(text)
CSeparator(text)         == Ok(text)
CStringArray(items, sep) == Ok(AsCodedJoin(items, sep))
CNumeric(neg, n)         == Ok(Decimal(neg, n))
CNumericArray(vals, sep) == Ok(AsCodedJoin([i \in 1..Len(vals) |-> Decimal(vals[i].neg, vals[i].n)], sep))
CBool(b)                 == Ok(IF b THEN <<121, 101, 115>> ELSE <<110, 111>>)
\* compose_parsable_array: an item that is neither composable, nor a coded enumeration member, nor of the fallback class
\* refuses the whole list ("bad" in kinds); bytes.join is the intent itself
CParsableArray(kinds, texts, sep) ==
   IF \E i \in 1..Len(kinds) : kinds[i] = "bad" THEN Typ ELSE Ok(Join(texts, sep))
=============================================================================
