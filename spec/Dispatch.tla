------------------------------- MODULE Dispatch -------------------------------
(* The variant dispatchers AS CODED (cryptoparser/common/base.py VariantParsable._parse / VariantParsableExact._parse):
   the alternatives of a variant class are tried in their declared order.

     VariantParsable       the first alternative that does not answer "invalid type" decides - with its object and consumed
                           length, or with its error (an alternative that recognises the type but rejects the value ends the
                           search: later alternatives are NOT tried); when every alternative answers "invalid type" the
                           dispatcher raises invalid value
     VariantParsableExact  alternatives that answer invalid type, invalid value or too much data are skipped; the first other
                           answer decides (an exact-size success consumes the whole buffer); none left: invalid value

   outs is the sequence of answers [out, n, dg] the alternatives give on their own for the same input (dg: digest of the
   object).  Consequences checked by MC_Dispatch: the dispatcher never answers "invalid type" itself, its answer is one of
   the alternatives' answers or invalid value, and a decided answer does not depend on the alternatives behind it. *)
EXTENDS Integers, Sequences

Skip(exact) == IF exact THEN {"InvalidType", "InvalidValue", "TooMuchData"} ELSE {"InvalidType"}
Deciding(outs, exact) == {i \in 1..Len(outs) : outs[i].out \notin Skip(exact)}
NoneLeft == [out |-> "InvalidValue", n |-> 0, dg |-> "-"]
Decide(outs, exact) ==
   IF Deciding(outs, exact) = {} THEN NoneLeft
   ELSE LET i == CHOOSE j \in Deciding(outs, exact) : \A k \in Deciding(outs, exact) : j <= k IN outs[i]
=============================================================================
