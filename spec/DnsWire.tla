------------------------------- MODULE DnsWire -------------------------------
(* C08 - DNSSEC and mail related RDATA written from RFC 1035 (names 3.1, MX 3.3.9, TXT 3.3.14),
   RFC 4034 (DNSKEY 2.1, RRSIG 3.1, DS 5.1, key tag Appendix B / B.1), RFC 3110 (RSA keys),
   RFC 2536 (DSA keys), RFC 6605 (ECDSA), RFC 5933 (GOST), RFC 8080 (Ed25519 = 32, Ed448 = 57 octets). *)
EXTENDS Prim

RECURSIVE FlattenD(_)
FlattenD(ss) == IF ss = <<>> THEN <<>> ELSE Head(ss) \o FlattenD(Tail(ss))
U16B(n) == <<(n \div 256) % 256, n % 256>>
U32D(d) == EncBE(d, 4)

\* domain name, uncompressed: length-prefixed labels, terminated by the zero-length root label
Name(labels) == FlattenD([i \in 1..Len(labels) |-> <<Len(labels[i])>> \o labels[i]]) \o <<0>>

\* RFC 3110 2: exponent length (1 octet, or 0 + 2 octets when > 255), exponent, modulus - no leading zero octets
RsaKey(e, n) == (IF Len(e) <= 255 THEN <<Len(e)>> ELSE <<0>> \o U16B(Len(e))) \o e \o n
\* RFC 2536 2: T, Q (20 octets), P, G, Y (64 + 8T octets each)
DsaKey(t, q, p, g, y) == <<t>> \o FixedMpint(q, 20) \o FixedMpint(p, 64 + 8 * t) \o FixedMpint(g, 64 + 8 * t) \o FixedMpint(y, 64 + 8 * t)
\* RFC 6605 4 / RFC 5933: x | y, each of the curve size
EcKey(x, y, size) == FixedMpint(x, size) \o FixedMpint(y, size)
KeyData(k) ==
  CASE k.kind = "rsa"   -> RsaKey(k.e, k.n)
    [] k.kind = "dsa"   -> DsaKey(k.t, k.q, k.p, k.g, k.y)
    [] k.kind = "ec"    -> EcKey(k.x, k.y, k.size)
    [] k.kind = "eddsa" -> k.key
EddsaSizeOk(alg, k) == k.kind # "eddsa" \/ (alg = 15 /\ Len(k.key) = 32) \/ (alg = 16 /\ Len(k.key) = 57)

Dnskey(m) == U16B(m.flags) \o <<m.protocol>> \o <<m.algorithm>> \o KeyData(m.key)
Ds(m)     == U16B(m.key_tag) \o <<m.algorithm>> \o <<m.digest_type>> \o m.digest
Rrsig(m)  == U16B(m.type_covered) \o <<m.algorithm>> \o <<m.labels>> \o U32D(m.original_ttl) \o U32D(m.expiration) \o U32D(m.inception)
             \o U16B(m.key_tag) \o Name(m.signers_name) \o m.signature
Mx(m)     == U16B(m.priority) \o Name(m.exchange)
\* TXT: one or more <character-string>s of at most 255 octets; the canonical split is into full strings
RECURSIVE Chunks(_)
Chunks(t) == IF Len(t) <= 255 THEN <<Len(t)>> \o t ELSE <<255>> \o SubSeq(t, 1, 255) \o Chunks(SubSeq(t, 256, Len(t)))
Txt(m)    == Chunks(m.text)
\* any other split of the same text into <character-string>s is the same TXT value (RFC 1035 3.3.14; RFC 7208 3.3 and
\* RFC 6376 3.6.2.2: the strings are concatenated without spaces); lens = the lengths of the strings, in order
RECURSIVE SplitBy(_, _)
SplitBy(t, lens) == IF lens = <<>> THEN <<>>
                    ELSE <<Head(lens)>> \o SubSeq(t, 1, Head(lens)) \o SplitBy(SubSeq(t, Head(lens) + 1, Len(t)), Tail(lens))
RECURSIVE SumL(_)
SumL(ls) == IF ls = <<>> THEN 0 ELSE Head(ls) + SumL(Tail(ls))
SplitOk(t, lens) == SumL(lens) = Len(t) /\ lens # <<>> /\ \A i \in 1..Len(lens) : lens[i] >= 0 /\ lens[i] <= 255

\* combinations the RFCs define (the parse-back clause is claimed for these; the layout clause always)
KeyConformant(alg, k) ==
  CASE k.kind = "rsa"   -> alg \in {1, 5, 7, 8, 10}
    [] k.kind = "dsa"   -> alg \in {3, 6} /\ k.t <= 8
    [] k.kind = "ec"    -> (alg = 13 /\ k.size = 32) \/ (alg = 14 /\ k.size = 48) \/ (alg = 12 /\ k.size = 32)
    [] k.kind = "eddsa" -> (alg = 15 /\ Len(k.key) = 32) \/ (alg = 16 /\ Len(k.key) = 57)
\* RFC 1035 3.1: a label is 1..63 octets (the zero-length label is the root and ends the name)
LabelsOk(ls) == \A i \in 1..Len(ls) : Len(ls[i]) >= 1 /\ Len(ls[i]) <= 63
DnsConformant(kind, m) ==
  CASE kind = "dnskey" -> KeyConformant(m.algorithm, m.key) /\ m.protocol = 3
    [] kind = "name"   -> LabelsOk(m.labels)
    [] kind = "mx"     -> LabelsOk(m.exchange)
    [] kind = "rrsig"  -> LabelsOk(m.signers_name)
    [] OTHER -> TRUE

DnsEnc(kind, m) ==
  CASE kind = "dnskey" -> Dnskey(m)
    [] kind = "ds"     -> Ds(m)
    [] kind = "rrsig"  -> Rrsig(m)
    [] kind = "mx"     -> Mx(m)
    [] kind = "txt"    -> Txt(m)
    [] kind = "name"   -> Name(m.labels)

\* RFC 4034 Appendix B: ac += (i & 1) ? key[i] : key[i] << 8;  ac += (ac >> 16) & 0xFFFF;  return ac & 0xFFFF
\* (i counted from 0: the FIRST octet of each pair is the high one, so an odd trailing octet is a HIGH octet)
RECURSIVE TagSum(_, _)
TagSum(b, i) == IF i > Len(b) THEN 0 ELSE (IF i % 2 = 1 THEN b[i] * 256 ELSE b[i]) + TagSum(b, i + 1)
KeyTag(rdata) == LET ac == TagSum(rdata, 1) IN (ac + ((ac \div 65536) % 65536)) % 65536
\* Appendix B.1 (algorithm 1, RSA/MD5): the most significant 16 of the least significant 24 bits of the modulus
KeyTagRsaMd5(rdata) == LET n == Len(rdata) IN rdata[n - 2] * 256 + rdata[n - 1]
=============================================================================
