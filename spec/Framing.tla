------------------------------ MODULE Framing ------------------------------
(* Stream framing units of the library and the total length each frame header DECLARES,
   written from the protocol documents (not from the parsers):

     TlsRecord            RFC 5246 6.2.1   type(1) version(2) length(2)            5 + length
     SslRecord            SSL 2.0 draft    2-byte header (MSB set): 15-bit length   2 + length
                                           3-byte header (MSB clear): 14-bit length
                                           + padding octet (length covers padding)  3 + length
     TlsHandshake         RFC 5246 7.4     msg_type(1) length(3)                    4 + length
     SshBinaryPacket      RFC 4253 6       packet_length(4) ...                     4 + packet_length
     SshBanner            RFC 4253 4.2     text line ending in LF                   index of first LF
     MySQLRecord          MySQL protocol   payload_length(3, little endian) seq(1)  4 + payload_length
     TPKT                 RFC 1006 6       vrsn(1)=3 reserved(1) length(2)          length (>= 4)
     COTP                 X.224 13.3       LI(1) ...                                1 + LI
     OpenVpnTcp           OpenVPN          packet length(2)                         2 + length
     LdapMessage          X.690 8.1        SEQUENCE tag, definite length            TLV length
     PgSslRequest / PgSync PostgreSQL      fixed                                    8 / 1

   A byte string is a sequence over 0..255.  HeaderNeed(u, b) is the number of leading
   bytes needed before the length is known (0 = known already from b). *)
EXTENDS Naturals, Sequences

U16(b, i)   == b[i] * 256 + b[i + 1]
U24(b, i)   == (b[i] * 256 + b[i + 1]) * 256 + b[i + 2]
U24LE(b, i) == (b[i + 2] * 256 + b[i + 1]) * 256 + b[i]
\* 32-bit lengths above 2^31-1 cannot be represented in TLC; frames that large are never generated
U32(b, i)   == ((b[i] * 256 + b[i + 1]) * 256 + b[i + 2]) * 256 + b[i + 3]

RECURSIVE BE(_, _, _)
BE(b, i, k) == IF k = 0 THEN 0 ELSE BE(b, i, k - 1) * 256 + b[i + k - 1]     \* k bytes from position i

FirstLF(b) == IF \E i \in 1..Len(b) : b[i] = 10
              THEN CHOOSE i \in 1..Len(b) : b[i] = 10 /\ \A j \in 1..(i - 1) : b[j] # 10
              ELSE 0

\* bytes that must be present before the declared length can be computed
HeaderSize(u, b) ==
  CASE u = "TlsRecord"       -> 5
    [] u = "SslRecord"       -> IF Len(b) >= 1 /\ b[1] < 128 THEN 3 ELSE 2
    [] u = "TlsHandshake"    -> 4
    [] u = "SshBinaryPacket" -> 4
    [] u = "MySQLRecord"     -> 4
    [] u = "TPKT"            -> 4
    [] u = "COTP"            -> 1
    [] u = "OpenVpnTcp"      -> 2
    [] u = "LdapMessage"     -> IF Len(b) >= 2 /\ b[2] >= 128 THEN 2 + (b[2] - 128) ELSE 2
    [] u = "PgSslRequest"    -> 0
    [] u = "PgSync"          -> 0
    [] u = "SshBanner"       -> 0

\* total frame length declared by the header (only meaningful when Len(b) >= HeaderSize(u, b))
DeclaredLen(u, b) ==
  CASE u = "TlsRecord"       -> 5 + U16(b, 4)
    [] u = "SslRecord"       -> IF b[1] >= 128 THEN 2 + ((b[1] - 128) * 256 + b[2])
                                ELSE 3 + ((b[1] % 64) * 256 + b[2])
    [] u = "TlsHandshake"    -> 4 + U24(b, 2)
    [] u = "SshBinaryPacket" -> 4 + U32(b, 1)
    [] u = "MySQLRecord"     -> 4 + U24LE(b, 1)
    [] u = "TPKT"            -> U16(b, 3)
    [] u = "COTP"            -> 1 + b[1]
    [] u = "OpenVpnTcp"      -> 2 + U16(b, 1)
    [] u = "LdapMessage"     -> IF b[2] < 128 THEN 2 + b[2] ELSE 2 + (b[2] - 128) + BE(b, 3, b[2] - 128)
    [] u = "PgSslRequest"    -> 8
    [] u = "PgSync"          -> 1
    [] u = "SshBanner"       -> FirstLF(b)
=============================================================================
