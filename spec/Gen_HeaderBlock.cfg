
