--------------------------- MODULE Gen_HeaderBlock ---------------------------
(* Specification -> code for the header section dispatcher: every block of up to two lines over the pool of field lines the
   harness supplies (known names in several spellings, fragments and extensions of known names, unknown names; values the
   class of the name accepts and values it refuses), and every block of three lines over the first eight: the text and what
   a reader has to make of it.  Replayed on the real HttpHeaderFields. *)
EXTENDS HeaderBlock, Json, IOUtils, SequencesExt, FiniteSets, TLC
In == ndJsonDeserialize(IOEnv.TRACE_FILE)
Pool == In[1].pool
Known == {In[1].known[i] : i \in 1..Len(In[1].known)}
N == Len(Pool)
Small == IF N < 8 THEN N ELSE 8
Picks == {<<i>> : i \in 1..N} \cup {<<i, j>> : i \in 1..N, j \in 1..N} \cup {<<i, j, k>> : i \in 1..Small, j \in 1..Small, k \in 1..Small}
Fields(p) == [i \in 1..Len(p) |-> Pool[p[i]]]
Cases == {[pick |-> p, text |-> Block(Fields(p)), expected |-> Expected(Fields(p), Known)] : p \in Picks}
\* design level: a line is understood in detail only under its whole name
ASSUME \A c \in Cases : \A i \in 1..Len(c.expected) : c.expected[i].typed => c.expected[i].name \in Known
ASSUME PrintT(<<"CASES", Cardinality(Cases)>>)
ASSUME ndJsonSerialize(IOEnv.OUT_FILE, SetToSeq(Cases))
=============================================================================
