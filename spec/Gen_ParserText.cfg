CONSTANTS
  MaxLen = 6
