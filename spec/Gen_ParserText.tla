---------------------------- MODULE Gen_ParserText ----------------------------
(* All texts of up to MaxLen characters over {a, b, ";", " "} with the four parameter combinations: the outcome of the
   as-coded engine model, and the design-level check that with skip_empty and separator spaces the engine implements the
   RFC 9110 list rule.  The harness replays every case on the real ParserText.parse_string_array. *)
EXTENDS ParserText, Json, IOUtils, SequencesExt, FiniteSets, TLC
CONSTANT MaxLen
Chars == {97, 98, 59, 32}
Texts == UNION {[1..n -> Chars] : n \in 0..MaxLen}
Params == {[spaces |-> sp, skip |-> sk, maxitems |-> mi] : sp \in {{}, {32}}, sk \in BOOLEAN, mi \in {-1, 2}}
Cases == {[text |-> t, spaces |-> (p.spaces # {}), skip |-> p.skip, maxitems |-> p.maxitems,
           res |-> StringArray(t, {59}, p.spaces, p.skip, p.maxitems)] : t \in Texts, p \in Params}
\* the engine implements the list rule (whole text consumed) when empties are skipped and no item limit is given
ASSUME \A t \in Texts : LET r == StringArray(t, {59}, {32}, TRUE, -1) IN r.k = "ok" /\ r.items = ListRule(t, {59}, {32}) /\ r.pos = Len(t)
ASSUME PrintT(<<"CASES", Cardinality(Cases)>>)
ASSUME ndJsonSerialize(IOEnv.OUT_FILE, SetToSeq(Cases))
=============================================================================
