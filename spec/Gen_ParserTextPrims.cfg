CONSTANTS
  MaxLen = 5
