-------------------------- MODULE Gen_ParserTextPrims --------------------------
(* Every short text with every small parameter combination for the primitives of ParserText other than the list engine:
   the outcome of the as-coded model, replayed by the harness on the real ParserText; and two design-level facts about the
   number list reader: what it consumes is the join of the items it read (so composing the items with ComposerText gives the
   consumed text back), and every item is a digit string with at most one inner or trailing point. *)
EXTENDS ParserText, Json, IOUtils, SequencesExt, FiniteSets, TLC
CONSTANT MaxLen
TextsOver(chars, n) == UNION {[1..m -> chars] : m \in 0..n}
RECURSIVE Join(_, _)
Join(items, sep) == IF items = <<>> THEN <<>> ELSE IF Len(items) = 1 THEN items[1] ELSE items[1] \o sep \o Join(Tail(items), sep)

NumCases == {[op |-> "numeric_array", text |-> t, itemnum |-> n, seps |-> SetToSeq(sp), floating |-> f, min |-> 0, max |-> 0, mayend |-> FALSE,
              res |-> NumericArray(t, n, sp, f)] : t \in TextsOver({49, 48, 46, 44}, MaxLen), n \in {-1, 1, 2}, sp \in {{}, {44}, {46}}, f \in BOOLEAN}
SepCases == {[op |-> "separator", text |-> t, itemnum |-> 0, seps |-> SetToSeq(sp), floating |-> FALSE, min |-> mn, max |-> mx, mayend |-> FALSE,
              res |-> Separator(t, sp, mn, mx)] : t \in TextsOver({44, 32, 97}, MaxLen - 1), sp \in {{44}, {44, 32}}, mn \in {0, 1, 2}, mx \in {-1, 1, 2}}
UntilCases == {[op |-> "until", text |-> t, itemnum |-> 0, seps |-> SetToSeq(sp), floating |-> FALSE, min |-> 0, max |-> 0, mayend |-> me,
              res |-> Until(t, sp, me)] : t \in TextsOver({44, 59, 97}, MaxLen - 1), sp \in {{44}, {44, 59}}, me \in BOOLEAN}
BoolCases == {[op |-> "bool", text |-> t, itemnum |-> 0, seps |-> <<>>, floating |-> FALSE, min |-> 0, max |-> 0, mayend |-> FALSE,
              res |-> BoolText(t)] : t \in TextsOver({121, 101, 115, 110, 111}, MaxLen - 1)}
LenCases == {[op |-> "by_length", text |-> t, itemnum |-> 0, seps |-> <<>>, floating |-> FALSE, min |-> mn, max |-> mx, mayend |-> FALSE,
              res |-> ByLength(t, mn, mx)] : t \in TextsOver({97}, MaxLen - 1), mn \in 0..3, mx \in -1..3}
Cases == NumCases \cup SepCases \cup UntilCases \cup BoolCases \cup LenCases

\* design level: the number list reader consumes exactly the join of what it read
ASSUME \A c \in NumCases : c.res.k = "ok" /\ Len(c.seps) = 1 =>
          Join(c.res.items, c.seps) = SubSeq(c.text, 1, c.res.pos)
ASSUME \A c \in NumCases : c.res.k = "ok" => \A i \in 1..Len(c.res.items) :
          LET it == c.res.items[i] IN
          /\ it # <<>> /\ IsDigit(it[1])
          /\ Cardinality({j \in 1..Len(it) : it[j] = 46}) <= (IF c.floating THEN 1 ELSE 0)
          /\ \A j \in 1..Len(it) : IsDigit(it[j]) \/ it[j] = 46
ASSUME PrintT(<<"CASES", Cardinality(Cases)>>)
ASSUME ndJsonSerialize(IOEnv.OUT_FILE, SetToSeq(Cases))
=============================================================================
