
