----------------------------- MODULE Gen_SshWire -----------------------------
(* Specification -> code for C07: identification strings (RFC 4253 4.2) over a small domain that exercises the
   comment grammar (any characters except CR / LF after the first space, spaces included), with their bytes. *)
EXTENDS SshWire, Json, IOUtils, SequencesExt, FiniteSets, TLC
Protos == {<<50, 46, 48>>, <<49, 46, 57, 57>>}
Softwares == {<<79, 112, 101, 110, 83, 83, 72, 95, 56, 46, 50, 112, 49>>, <<100, 114, 111, 112, 98, 101, 97, 114, 95, 50, 48, 50, 48, 46, 56, 49>>, <<120>>,
              <<79, 112, 101, 110, 83, 83, 72, 95, 102, 111, 114, 95, 87, 105, 110, 100, 111, 119, 115, 95, 56, 46, 49>>, <<79, 112, 101, 110, 83, 83, 72, 95, 55, 46, 52, 95, 104, 112, 110, 49, 52, 118, 49>>, <<100, 114, 111, 112, 98, 101, 97, 114, 95, 50, 48, 49, 57, 46, 55, 56, 95, 120>>, <<108, 105, 98, 115, 115, 104, 95, 48, 46, 57, 46, 54>>, <<108, 105, 98, 115, 115, 104, 50, 95, 49, 46, 49, 48, 46, 48, 95, 68, 69, 86>>, <<79, 112, 101, 110, 83, 83, 72, 95>>, <<95, 56, 46, 49>>, <<109, 111, 100, 95, 115, 102, 116, 112, 47, 48, 46, 57, 46, 57>>, <<83, 117, 110, 95, 83, 83, 72, 95, 49, 46, 49, 46, 52>>, <<82, 111, 109, 83, 83, 104, 101, 108, 108, 95, 52, 46, 54, 50>>, <<120, 95>>, <<97, 95, 95, 98>>}   \* several vendor separators, empty vendor / version parts
Comments == {<<99>>, <<116, 119, 111, 32, 32, 115, 112, 97, 99, 101, 115>>, <<116, 97, 98, 9, 120>>, <<116, 114, 97, 105, 108, 32>>, <<97, 32, 98, 32, 99>>, <<68, 101, 98, 105, 97, 110, 45, 49, 48, 43, 100, 101, 98, 49, 48, 117, 50, 32, 32, 98, 117, 105, 108, 100, 32, 52, 50>>, <<120, 61, 49, 59, 121>>}
Banners == {[proto |-> p, software |-> s, has_comment |-> FALSE, comment |-> <<>>] : p \in Protos, s \in Softwares}
      \cup {[proto |-> p, software |-> s, has_comment |-> TRUE, comment |-> c] : p \in Protos, s \in Softwares, c \in Comments}
\* KEXINIT payloads with language tags (RFC 4253 7.1: name-lists of RFC 3066 / BCP 47 tags: subtags may contain digits),
\* empty and non-empty lists next to each other
Cookie16 == [i \in 1..16 |-> i]
LangLists == {<<>>, <<<<101, 110, 45, 85, 83>>>>, <<<<101, 115, 45, 52, 49, 57>>, <<100, 101, 45, 67, 72, 45, 49, 57, 57, 54>>, <<101, 110>>>>, <<<<122, 104, 45, 72, 97, 110, 116, 45, 84, 87>>, <<115, 108, 45, 114, 111, 122, 97, 106, 45, 49, 57, 57, 52>>>>}
Kex1 == <<<<99, 117, 114, 118, 101, 50, 53, 53, 49, 57, 45, 115, 104, 97, 50, 53, 54>>>>
KexInits == {[cookie |-> Cookie16, kex |-> Kex1, host_key |-> <<<<115, 115, 104, 45, 101, 100, 50, 53, 53, 49, 57>>>>, enc_c2s |-> <<<<97, 101, 115, 49, 50, 56, 45, 99, 116, 114>>>>, enc_s2c |-> <<<<97, 101, 115, 49, 50, 56, 45, 99, 116, 114>>>>,
              mac_c2s |-> <<<<104, 109, 97, 99, 45, 115, 104, 97, 50, 45, 50, 53, 54>>>>, mac_s2c |-> <<<<104, 109, 97, 99, 45, 115, 104, 97, 50, 45, 50, 53, 54>>>>, comp_c2s |-> <<<<110, 111, 110, 101>>>>, comp_s2c |-> <<<<110, 111, 110, 101>>>>,
              lang_c2s |-> a, lang_s2c |-> b, first_kex_packet_follows |-> FALSE, reserved |-> <<>>] : a \in LangLists, b \in LangLists}
Cases == {[abs |-> m, wire |-> Banner(m), kind |-> "banner"] : m \in Banners}
    \cup {[abs |-> m, wire |-> KexInit(m), kind |-> "kexinit"] : m \in KexInits}
ASSUME PrintT(<<"CASES", Cardinality(Cases)>>)
ASSUME ndJsonSerialize(IOEnv.OUT_FILE, SetToSeq(Cases))
=============================================================================
