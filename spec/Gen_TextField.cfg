
