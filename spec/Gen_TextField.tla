---------------------------- MODULE Gen_TextField ----------------------------
(* Specification -> code for C18: for every canonical value handed in (type, directives) all spellings reachable with
   one or two permitted actions, rendered to bytes, together with the action path.  Also the design-level check that
   every action preserves Meaning (up to order for the order action). *)
EXTENDS TextField, Json, IOUtils, SequencesExt, TLC

In == ndJsonDeserialize(IOEnv.TRACE_FILE)
Plain(d, eqc, eqpost) == [name |-> d.name, hasval |-> d.hasval, val |-> d.val, case |-> 0, pre |-> <<>>, post |-> <<>>, eqpre |-> <<>>, eqpost |-> eqpost,
                  quote |-> d.quoted, quotable |-> d.quotable, unknown |-> FALSE, eq |-> eqc]
Canon(c) == [dirs |-> [i \in 1..Len(c.dirs) |-> Plain(c.dirs[i], c.eq, c.eqpost)], sep |-> c.sep, gap |-> c.gap, dbl |-> 0, trail |-> FALSE, tail |-> c.tail,
             fixed |-> c.fixed, caseskip |-> c.caseskip, bareunknown |-> c.bareunknown, head |-> c.head, qnames |-> c.qnames]
Acts(c) == Allowed(c.type) \cap {"name-case", "ows", "edge-ws", "eq-ws", "empty", "trail", "order", "quote", "unknown", "val-ws"}
One(c) == UNION {{[path |-> <<x.lab>>, act |-> a, s |-> x.s] : x \in Act(a, Canon(c))} : a \in Acts(c)}
Two(c) == UNION {UNION {{[path |-> <<x.path[1], y.lab>>, act |-> a, s |-> y.s] : y \in Act(a, x.s)} : a \in Acts(c) \ {x.act}} : x \in One(c)}
Out(c, i) == {[id |-> i, type |-> c.type, path |-> x.path, text |-> Render(x.s)] : x \in One(c) \cup (IF c.deep THEN Two(c) ELSE {})}
             \cup {[id |-> i, type |-> c.type, path |-> <<"canonical">>, text |-> Render(Canon(c))]}
All == UNION {Out(In[i], i) : i \in 1..Len(In)}
\* design level: the actions are meaning preserving
ASSUME \A i \in 1..Len(In) : \A x \in One(In[i]) \cup Two(In[i]) : SameUpToOrder(Meaning(x.s), Meaning(Canon(In[i])))
ASSUME \A i \in 1..Len(In) : Render(Canon(In[i])) = In[i].text             \* the harness tokeniser and Render agree on the canonical spelling
ASSUME PrintT(<<"CASES", Cardinality(All)>>)
ASSUME ndJsonSerialize(IOEnv.OUT_FILE, SetToSeq(All))
=============================================================================
