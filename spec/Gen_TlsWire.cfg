
