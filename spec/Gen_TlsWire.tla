----------------------------- MODULE Gen_TlsWire -----------------------------
(* Specification -> code for C06 and C15: every client hello of a small abstract domain,
   with the bytes TlsWire prescribes for it and the JA3 string the published algorithm
   gives for those bytes.  The harness builds each hello through the real constructors
   (compose must give exactly these bytes), feeds the bytes to the real parser (the
   abstract value must come back) and compares ja3(). *)
EXTENDS TlsWire, Ja3, Json, IOUtils, SequencesExt, FiniteSets

SeqsUpTo(S, n) == UNION {[1..k -> S] : k \in 0..n}
Versions == {768, 771, 32540}
Sids == {<<>>, [i \in 1..32 |-> i]}
SuiteCodes == {47, 4865, 2570, 4660}                  \* two known, one GREASE (0x0a0a), one unassigned (0x1234)
GenExts == { [type |-> 10, body |-> <<0, 10, 17, 236, 10, 10, 26, 26, 0, 23, 42, 42>>],  \* supported_groups: unassigned 0x11ec, two GREASE values in a row, secp256r1, GREASE
          [type |-> 11, body |-> <<2, 0, 1>>],                     \* ec_point_formats: uncompressed, ansiX962_compressed_prime
          [type |-> 65281, body |-> <<0>>],                        \* renegotiation_info, empty
          [type |-> 10794, body |-> <<7>>] }                       \* GREASE extension 0x2a2a with one byte
Random28 == [i \in 1..28 |-> 255 - i]

Hellos == { [version |-> v, time |-> <<1, 2, 3, 4>>, random |-> Random28, session_id |-> sid, cipher_suites |-> cs,
             fallback_scsv |-> fb, empty_renegotiation_info_scsv |-> rn, compression_methods |-> <<0>>, extensions |-> es] :
             v \in Versions, sid \in Sids, cs \in SeqsUpTo(SuiteCodes, 2), fb \in BOOLEAN, rn \in BOOLEAN,
             es \in {s \in SeqsUpTo(GenExts, 2) : Len(s) < 2 \/ s[1] # s[2]} }
Cases == { [abs |-> h, wire |-> ClientHello(h), ja3 |-> Ja3(ClientHello(h)), sweep |-> FALSE] : h \in Hellos }
\* every extension type number up to 70 and the high ones in use, with a two-byte body, in front of ec_point_formats: the
\* harness replays those the library knows by number only (no class of their own): they stay opaque and the next extension
\* is found where the length field says
SweepTypes == (0..70 \ {10, 11}) \cup {13172, 17513, 30032, 65037}
SweepHello(t) == [version |-> 771, time |-> <<1, 2, 3, 4>>, random |-> Random28, session_id |-> <<>>, cipher_suites |-> <<47>>,
                  fallback_scsv |-> FALSE, empty_renegotiation_info_scsv |-> FALSE, compression_methods |-> <<0>>,
                  extensions |-> <<[type |-> t, body |-> <<1, 0>>], [type |-> 11, body |-> <<2, 0, 1>>]>>]
Sweep == { [abs |-> SweepHello(t), wire |-> ClientHello(SweepHello(t)), ja3 |-> Ja3(ClientHello(SweepHello(t))), sweep |-> TRUE] : t \in SweepTypes }
ASSUME PrintT(<<"CASES", Cardinality(Cases)>>)
ASSUME ndJsonSerialize(IOEnv.OUT_FILE, SetToSeq(Cases) \o SetToSeq(Sweep))
=============================================================================
