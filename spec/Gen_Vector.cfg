CONSTANTS
  MinB = 1
  MaxB = 3
  MaxXs = 2
  MaxSliceXs = 2
