----------------------------- MODULE Gen_Vector -----------------------------
(* Specification -> code for C12: every transition <<content, operation, content', result>>
   of the intent specification (VectorOps!Outcome) over a small item universe and small
   bounds, written as ndjson.  The harness chains them into behaviours (every step is a
   transition listed here) and replays them on real vectors whose protocol bounds equal
   MinB / MaxB. *)
EXTENDS VectorOps, Json, IOUtils, SequencesExt, TLC

CONSTANTS MaxXs, MaxSliceXs
GenItems == {<<1, 1>>, <<2, 1>>, <<3, 2>>}
AllLists == {s \in ListsUpTo(GenItems, MaxB + 1) : Valid(s)}
Cases == UNION {{[s |-> s, op |-> o, post |-> Outcome(o, s)[1], res |-> Outcome(o, s)[2]] :
                    o \in OpsOver(s, GenItems, MaxXs, MaxSliceXs)} : s \in AllLists}
ASSUME PrintT(<<"CASES", Cardinality(AllLists), Cardinality(Cases)>>)
ASSUME ndJsonSerialize(IOEnv.OUT_FILE, SetToSeq(Cases))
=============================================================================
