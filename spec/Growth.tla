-------------------------------- MODULE Growth --------------------------------
(* C19 - parsing work is bounded linearly by the input size.

   Part 1 (structure).  The engine's loops as a state machine: a cursor over `size` bytes; every
   iteration consumes Adv bytes (the item parser's consumed length, chosen by the environment from
   Advances) and costs one unit of work per variant tried.  With Advances >= 1 ("the cursor strictly
   advances") the loop terminates and work <= Variants * size; TLC shows both, and shows the
   non-terminating behaviour when an item may consume 0 bytes (specification-level mutant).

   Part 2 (law).  A measurement series is a sequence of points [size, declared, steps, depth] taken
   on inputs of one shape whose size doubles (or whose DECLARED length / count doubles while the size
   stays the same).  The law the property states:
        Double   size' = 2 * size   =>  steps' <= 2 * steps + C      (linear: doubling the input at most doubles the work)
        Declare  size' = size       =>  steps' <= steps + C          (work does not follow a declared length)
        depth <= D                                                    (recursion depth bounded by a constant)
        History  same input, k earlier parses  =>  steps_k <= steps_0 + C   (the constant belongs to the class, not to the process history)
   C is the work at the smallest size of the series plus a fixed slack (start-up cost), D a constant. *)
EXTENDS Integers, Sequences, TLC

CONSTANTS Size, Advances, Variants
VARIABLES pos, work
lvars == <<pos, work>>
LInit == pos = 0 /\ work = 0
Iterate == /\ pos < Size
           /\ \E a \in Advances : pos' = (IF pos + a > Size THEN Size ELSE pos + a)
           /\ work' = work + Variants
LNext == Iterate
LSpec == LInit /\ [][LNext]_lvars /\ WF_lvars(Iterate)
Terminates == <>(pos = Size)
LinearWork == work <= Variants * Size
CursorInRange == pos >= 0 /\ pos <= Size

-----------------------------------------------------------------------------
Slack == 4000
DepthBound == 120
PerByte == 3000       \* no class of the library needs more than this many LINE events per input byte (one item = a linear search of an enum)
Base == 20000
\* absolute bound: whatever the input declares, the work is bounded by the bytes actually present
Bounded(p) == p.steps <= PerByte * p.size + Base
\* doubling law, for consecutive points of one series on which the parser took the same way out
PointOk(prev, cur, c0) ==
   IF cur.out # prev.out THEN TRUE
   ELSE IF cur.size = prev.size THEN TRUE
   ELSE cur.steps <= ((cur.size + prev.size - 1) \div prev.size) * prev.steps + c0 + Slack
\* a fixed input costs the same however many inputs were parsed before (first parse: lazy imports and registries, hence >=)
HistorySlack == 40     \* LINE counts are deterministic: a fixed input takes the same lines every time (a few more on a cold first call)
HistoryOk(first, cur) == cur.out # first.out \/ cur.steps <= first.steps + HistorySlack
=============================================================================
