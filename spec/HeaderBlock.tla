----------------------------- MODULE HeaderBlock -----------------------------
(* The header section of an HTTP message (RFC 9110 5 and 6.3) and what a reader with detailed knowledge of SOME field names makes
   of it: a list of field lines "name: value" CRLF ended by an empty line; field names are case-insensitive; the fields come
   back in the order sent; a field is understood in detail exactly when its whole name is one of the known names and its value
   is one the reader's class for that name accepts - every other line stays a field of its own, name and value untouched.
   Texts are sequences of character codes. *)
EXTENDS Integers, Sequences

Lower(c) == IF c \in 65..90 THEN c + 32 ELSE c
LowerS(s) == [i \in 1..Len(s) |-> Lower(s[i])]
CRLF == <<13, 10>>
Line(f) == f.name \o <<58, 32>> \o f.value
RECURSIVE Block(_)
Block(fs) == IF fs = <<>> THEN CRLF ELSE Line(Head(fs)) \o CRLF \o Block(Tail(fs))

\* f.ok: the value class of the known name accepts f.value (observed on that class alone); Known: lower-case known names
Understood(f, Known) == LowerS(f.name) \in Known /\ f.ok
Expected(fs, Known) == [i \in 1..Len(fs) |-> [typed |-> Understood(fs[i], Known), name |-> LowerS(fs[i].name), value |-> fs[i].value]]
=============================================================================
