-------------------------------- MODULE Heap --------------------------------
(* C13 - observers are pure; objects never share state with inputs or each other.

   Memory is a set of CELLS holding a value (a counter: every in-place edit bumps it).
   An object slot refers to one cell (its mutable part), a buffer is a cell, a class has a
   "default" cell that the constructor uses when the caller passes no argument.

     New(o)        construct slot o with default arguments
     Mutate(o)     edit the object in slot o in place
     Observe(o,f)  compose / ja3 / hassh / fingerprints / key_tag / as_json / as_markdown
                   (f = "fail" models an observer call that raises, e.g. at a size bound)
     Parse(o)      parse the buffer into slot o
     BufMutate     the caller overwrites / consumes the buffer afterwards
     NewFrom(o)    construct slot o from an ARGUMENT the caller keeps (a Python list handed to a vector-valued field)
     ArgMutate     the caller edits that argument afterwards
     ResMutate     the caller edits the value an observer RETURNED (appends to the composed bytearray, sorts the list, ...)

   GHOST state: exp[o] is the value the object in slot o must have if objects are
   independent - it changes only by Mutate(o), New(o), Parse(o).  The property is
   Independent: every live object's real value equals its ghost value, and observer
   results are a function of the object alone (Deterministic).

   Implementation switches (FALSE,FALSE,FALSE = the intended design):
     SharedDefault   New() stores a reference to the class-level default object
                     (attr.ib(default=<mutable>)) instead of building a fresh one
     AliasInput      Parse keeps the caller's buffer object (TlsApplicationDataMessage
                     before the fix)
     LeakyObserver   an observer edits the object and restores it afterwards, but not
                     when it fails half-way (client hello compose before the fix)
     AliasArg        the constructor stores the caller's list itself instead of copying it
     AliasResult     an observer hands out the object's own mutable part instead of a copy
                     (TlsApplicationDataMessage.compose returned self.data)
   TLC rejects each of them; the harness replays the histories TLC enumerates on the
   real classes and compares which objects changed with what this model allows. *)
EXTENDS Integers, Sequences, FiniteSets, TLC

CONSTANTS Slots, MaxSteps, SharedDefault, AliasInput, LeakyObserver, AliasResult, AliasArg

DefaultCell == <<"default", "-", 0>>
BufCell == <<"buf", "-", 0>>
ArgCell == <<"arg", "-", 0>>
NoCell == <<"none", "-", 0>>
Cells == {DefaultCell, BufCell, ArgCell} \cup {<<"own", s, k>> : s \in Slots, k \in 0..MaxSteps} \cup {<<"res", "-", k>> : k \in 0..MaxSteps}

VARIABLES mem,      \* cell -> value
          ref,      \* slot -> cell (or "none")
          exp,      \* ghost: slot -> value the object must have
          last,     \* slot -> last successful observer result (or -1)
          resref,   \* the cell the last observer result lives in ("none" before any observation)
          steps, op
vars == <<mem, ref, exp, last, resref, steps, op>>

Live == {s \in Slots : ref[s] # NoCell}
Value(s) == mem[ref[s]]
Fresh(s) == <<"own", s, steps>>          \* a cell nobody else refers to

Init == /\ mem = [c \in Cells |-> 0]
        /\ ref = [s \in Slots |-> NoCell] /\ exp = [s \in Slots |-> 0] /\ last = [s \in Slots |-> -1]
        /\ resref = NoCell /\ steps = 0 /\ op = <<"init", "-", "-">>

Tick(o) == steps' = steps + 1 /\ op' = o /\ steps < MaxSteps

New(s) == /\ Tick(<<"new", s, "-">>)
          /\ IF SharedDefault
             THEN ref' = [ref EXCEPT ![s] = DefaultCell] /\ mem' = mem
             ELSE ref' = [ref EXCEPT ![s] = Fresh(s)] /\ mem' = [mem EXCEPT ![Fresh(s)] = 0]
          /\ exp' = [exp EXCEPT ![s] = 0] /\ last' = [last EXCEPT ![s] = -1] /\ UNCHANGED resref

Mutate(s) == /\ s \in Live /\ Tick(<<"mutate", s, "-">>)
             /\ mem' = [mem EXCEPT ![ref[s]] = @ + 1]
             /\ exp' = [exp EXCEPT ![s] = @ + 1] /\ last' = [last EXCEPT ![s] = -1]
             /\ UNCHANGED <<ref, resref>>

Observe(s, f) == /\ s \in Live /\ Tick(<<"observe", s, f>>)
                 /\ IF f = "fail" /\ LeakyObserver
                    THEN mem' = [mem EXCEPT ![ref[s]] = @ + 1]      \* temporary edit never undone
                    ELSE mem' = mem
                 /\ last' = IF f = "ok" THEN [last EXCEPT ![s] = Value(s)] ELSE last
                 /\ resref' = IF f # "ok" THEN resref ELSE IF AliasResult THEN ref[s] ELSE <<"res", "-", steps>>
                 /\ UNCHANGED <<ref, exp>>

Parse(s) == /\ Tick(<<"parse", s, "-">>)
            /\ IF AliasInput
               THEN ref' = [ref EXCEPT ![s] = BufCell] /\ mem' = mem
               ELSE ref' = [ref EXCEPT ![s] = Fresh(s)] /\ mem' = [mem EXCEPT ![Fresh(s)] = mem[BufCell]]
            /\ exp' = [exp EXCEPT ![s] = mem[BufCell]] /\ last' = [last EXCEPT ![s] = -1] /\ UNCHANGED resref

BufMutate == /\ Tick(<<"bufmutate", "-", "-">>)
             /\ mem' = [mem EXCEPT ![BufCell] = @ + 1]
             /\ UNCHANGED <<ref, exp, last, resref>>

NewFrom(s) == /\ Tick(<<"newfrom", s, "-">>)
              /\ IF AliasArg
                 THEN ref' = [ref EXCEPT ![s] = ArgCell] /\ mem' = mem
                 ELSE ref' = [ref EXCEPT ![s] = Fresh(s)] /\ mem' = [mem EXCEPT ![Fresh(s)] = mem[ArgCell]]
              /\ exp' = [exp EXCEPT ![s] = mem[ArgCell]] /\ last' = [last EXCEPT ![s] = -1] /\ UNCHANGED resref

ArgMutate == /\ Tick(<<"argmutate", "-", "-">>)
             /\ mem' = [mem EXCEPT ![ArgCell] = @ + 1]
             /\ UNCHANGED <<ref, exp, last, resref>>

\* the caller edits the returned value in place: it is the caller's, no object may notice
ResMutate == /\ resref # NoCell /\ Tick(<<"resmutate", "-", "-">>)
             /\ mem' = [mem EXCEPT ![resref] = @ + 1]
             /\ UNCHANGED <<ref, exp, last, resref>>

Next == \/ \E s \in Slots : New(s) \/ Mutate(s) \/ Parse(s) \/ Observe(s, "ok") \/ Observe(s, "fail")
        \/ BufMutate \/ ResMutate \/ ArgMutate \/ (\E s \in Slots : NewFrom(s))
Spec == Init /\ [][Next]_vars

Independent   == \A s \in Live : Value(s) = exp[s]
\* an observer result, once taken, stays valid until the object itself is edited
Deterministic == \A s \in Live : last[s] # -1 => last[s] = Value(s)
\* the class default stays pristine whatever happened
FreshDefaults == mem[DefaultCell] = 0
=============================================================================
