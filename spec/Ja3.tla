--------------------------------- MODULE Ja3 ---------------------------------
(* C15 - the published JA3 algorithm (salesforce/ja3 README) applied to the WIRE BYTES of a
   client hello handshake message:
       SSLVersion,Cipher,SSLExtension,EllipticCurve,EllipticCurvePointFormat
   decimal values, "-" inside a section, "," between sections, in wire order; GREASE
   values (RFC 8701) are ignored in every section; nothing else is added, removed or
   reordered - so the signalling suites 0x00ff and 0x5600 stay in the cipher section.

   Parameters of the variants used to classify a disagreement:
     keepGreaseSuites  - GREASE values are NOT removed from the cipher section
     dropScsv          - 0x00ff and 0x5600 are removed from the cipher section *)
EXTENDS Integers, Sequences, TLC

U16At(b, i) == b[i] * 256 + b[i + 1]
IsGrease16(c) == (c \div 256) = (c % 256) /\ (c % 16) = 10
\* RFC 8701 defines one-byte GREASE values only for PskKeyExchangeModes (0x0B, 0x2A, 0x49, .., 0xE4); whether a
\* JA3 implementation drops them from the one-byte point-format section is not settled by the JA3 text: both accepted
IsGrease8(c)  == c \in {11, 42, 73, 104, 135, 166, 197, 228}

RECURSIVE U16List(_, _, _)
U16List(b, i, n) == IF n < 2 THEN <<>> ELSE <<U16At(b, i)>> \o U16List(b, i + 2, n - 2)      \* n bytes from i
RECURSIVE U8List(_, _, _)
U8List(b, i, n) == IF n < 1 THEN <<>> ELSE <<b[i]>> \o U8List(b, i + 1, n - 1)

RECURSIVE Join(_, _)
Join(xs, sep) == IF xs = <<>> THEN "" ELSE IF Len(xs) = 1 THEN ToString(xs[1])
                 ELSE ToString(xs[1]) \o sep \o Join(Tail(xs), sep)
Filter(xs, P(_)) == LET RECURSIVE F(_) F(s) == IF s = <<>> THEN <<>> ELSE (IF P(Head(s)) THEN <<Head(s)>> ELSE <<>>) \o F(Tail(s)) IN F(xs)

\* offsets inside the handshake message (1-based): type(1) length(3) version(2) random(32) sid_len(1) ...
SidLenAt == 39
SuitesLenAt(b) == SidLenAt + 1 + b[SidLenAt]
Suites(b) == U16List(b, SuitesLenAt(b) + 2, U16At(b, SuitesLenAt(b)))
CompLenAt(b) == SuitesLenAt(b) + 2 + U16At(b, SuitesLenAt(b))
ExtLenAt(b) == CompLenAt(b) + 1 + b[CompLenAt(b)]
HasExtensions(b) == ExtLenAt(b) + 1 <= Len(b)

\* walk the extension block: sequence of <<type, body offset, body length>>
RECURSIVE ExtWalk(_, _, _)
ExtWalk(b, i, end) == IF i + 3 > end THEN <<>>
                      ELSE <<<<U16At(b, i), i + 4, U16At(b, i + 2)>>>> \o ExtWalk(b, i + 4 + U16At(b, i + 2), end)
Exts(b) == IF HasExtensions(b) THEN ExtWalk(b, ExtLenAt(b) + 2, ExtLenAt(b) + 1 + U16At(b, ExtLenAt(b))) ELSE <<>>
ExtTypes(b) == [i \in 1..Len(Exts(b)) |-> Exts(b)[i][1]]
BodyOf(b, t) == LET es == Exts(b) idx == {i \in 1..Len(es) : es[i][1] = t} IN
                IF idx = {} THEN <<0, 0>> ELSE LET i == CHOOSE k \in idx : \A j \in idx : k <= j IN <<es[i][2], es[i][3]>>
Groups(b) == LET x == BodyOf(b, 10) IN IF x[2] < 2 THEN <<>> ELSE U16List(b, x[1] + 2, U16At(b, x[1]))
PointFormats(b) == LET x == BodyOf(b, 11) IN IF x[2] < 1 THEN <<>> ELSE U8List(b, x[1] + 1, b[x[1]])

NotGrease(c) == ~IsGrease16(c)
NotScsv(c) == c # 255 /\ c # 22016
NotGrease8(c) == ~IsGrease8(c)
Ja3Variant2(b, keepGreaseSuites, dropScsv, dropGrease8) ==
   LET s1 == IF keepGreaseSuites THEN Suites(b) ELSE Filter(Suites(b), NotGrease)
       s2 == IF dropScsv THEN Filter(s1, NotScsv) ELSE s1
   IN ToString(U16At(b, 5)) \o "," \o Join(s2, "-") \o "," \o Join(Filter(ExtTypes(b), NotGrease), "-") \o ","
      \o Join(Filter(Groups(b), NotGrease), "-") \o ","
      \o Join(IF dropGrease8 THEN Filter(PointFormats(b), NotGrease8) ELSE PointFormats(b), "-")
Ja3Variant(b, keepGreaseSuites, dropScsv) == Ja3Variant2(b, keepGreaseSuites, dropScsv, FALSE)
Ja3(b) == Ja3Variant(b, FALSE, FALSE)
=============================================================================
