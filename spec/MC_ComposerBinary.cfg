SPECIFICATION Spec
CONSTANTS
  Wrap3 = FALSE
  HalfArrays = FALSE
INVARIANT Atomic
INVARIANT Exact
INVARIANT NeverTruncates
PROPERTY OnlyGrows
CHECK_DEADLOCK FALSE
