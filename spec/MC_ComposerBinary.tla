--------------------------- MODULE MC_ComposerBinary ---------------------------
(* Programs of up to 3 primitives over small values: the buffer only grows, a refused value changes nothing (atomicity),
   every accepted integer decodes to itself (Prim!Dec) and occupies exactly its width. *)
EXTENDS ComposerBinary, TLC
VARIABLES buf, last, steps
vars == <<buf, last, steps>>
ToDigits(n) == LET RECURSIVE F(_) F(k) == IF k = 0 THEN <<>> ELSE F(k \div 256) \o <<k % 256>> IN F(n)
Vals == {0, 1, 255, 256, 65535, 65536, 16777215, 16777216, 16777217}
Ops == {[name |-> "numeric", d |-> ToDigits(v), w |-> w] : v \in Vals, w \in {1, 2, 3}}
  \cup {[name |-> "array", ds |-> <<ToDigits(a), ToDigits(b)>>, w |-> w] : a \in {1, 255}, b \in {256, 16777216}, w \in {1, 3}}
  \cup {[name |-> "bytes", n |-> n, w |-> 1] : n \in {0, 255, 256}}
Result(o) == CASE o.name = "numeric" -> Numeric(o.d, o.w, "!")
               [] o.name = "array"   -> NumericArray(o.ds, o.w, "!")
               [] o.name = "bytes"   -> Prefixed(ToDigits(o.n), [i \in 1..o.n |-> 7], o.w, "!")
Init == buf = <<>> /\ last = [op |-> [name |-> "none"], r |-> Ok(<<>>), before |-> <<>>] /\ steps = 0
Next == /\ steps < 3
        /\ \E o \in Ops : LET r == Result(o) IN
              /\ buf' = buf \o r.app
              /\ last' = [op |-> o, r |-> r, before |-> buf]
        /\ steps' = steps + 1
Spec == Init /\ [][Next]_vars
Atomic == last.r.k # "ok" => buf = last.before
OnlyGrows == [][Len(buf') >= Len(buf) /\ SubSeq(buf', 1, Len(buf)) = buf]_vars
Exact == last.op.name = "numeric" /\ last.r.k = "ok" => Len(last.r.app) = last.op.w /\ Dec(last.r.app, "!") = last.op.d
NeverTruncates == last.op.name = "numeric" /\ Len(last.op.d) > last.op.w => last.r.k # "ok"
=============================================================================
