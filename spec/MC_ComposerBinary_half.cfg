SPECIFICATION Spec
CONSTANTS
  Wrap3 = FALSE
  HalfArrays = TRUE
INVARIANT Atomic
INVARIANT Exact
INVARIANT NeverTruncates
PROPERTY OnlyGrows
CHECK_DEADLOCK FALSE
