SPECIFICATION Spec
CONSTANTS
  Wrap3 = TRUE
  HalfArrays = FALSE
INVARIANT Atomic
INVARIANT Exact
INVARIANT NeverTruncates
PROPERTY OnlyGrows
CHECK_DEADLOCK FALSE
