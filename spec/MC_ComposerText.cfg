SPECIFICATION Spec
CONSTANTS
  KeepLastSep = FALSE
  LooseBlank = FALSE
INVARIANT Atomic
INVARIANT DecimalExact
INVARIANT ListEndsWithItem
INVARIANT JoinIsIntent
INVARIANT RecoverableIffParsesBack
PROPERTY OnlyGrows
CHECK_DEADLOCK FALSE
