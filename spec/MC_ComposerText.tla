---------------------------- MODULE MC_ComposerText ----------------------------
(* 1. Programs of up to 3 text primitives: the buffer only grows, a refused list changes nothing.
   2. For every list of up to 3 items of up to 2 characters over {a, separator, blank} and the three separator styles
      the library uses ("", ",", ", "): the as-coded join is the intended join (JoinIsIntent), and the text list engine
      (ParserText!StringArray, the as-coded parser model) gives the items back exactly when Recoverable holds
      (RecoverableIffParsesBack) - the composer's missing precondition, stated and checked instead of assumed. *)
EXTENDS ComposerText, TLC
CONSTANT LooseBlank    \* spec-level mutant of Recoverable: forget the blank-edge condition (must be rejected)
PT == INSTANCE ParserText

A == 97     \* 'a'
S == 44     \* ','
B == 32     \* ' '
Texts == {<<>>} \cup {<<x>> : x \in {A, S, B}} \cup {<<x, y>> : x \in {A, S, B}, y \in {A, S, B}}
Lists == {<<>>} \cup {<<x>> : x \in Texts} \cup {<<x, y>> : x \in Texts, y \in Texts}
           \cup {<<x, y, z>> : x \in Texts, y \in Texts, z \in {<<A>>, <<>>, <<S>>, <<B, A>>}}
Styles == {[sep |-> <<>>, seps |-> {}, spaces |-> {}],          \* no separator: one text
           [sep |-> <<S>>, seps |-> {S}, spaces |-> {}],        \* "a,b"   parsed with ","
           [sep |-> <<S>>, seps |-> {S}, spaces |-> {B}],       \* "a,b"   parsed with "," and optional blanks
           [sep |-> <<S, B>>, seps |-> {S}, spaces |-> {B}]}    \* "a, b"  parsed with "," and optional blanks

VARIABLES buf, last, steps, probe
vars == <<buf, last, steps, probe>>

Ops == {[name |-> "string", text |-> t] : t \in {<<>>, <<A>>, <<A, S>>}}
  \cup {[name |-> "numeric", neg |-> ng, n |-> n] : ng \in BOOLEAN, n \in {0, 7, 10, 86400, 2000000000}}
  \cup {[name |-> "strings", items |-> l, sep |-> s] : l \in {<<>>, <<<<A>>>>, <<<<A>>, <<>>>>, <<<<A>>, <<S>>, <<A, A>>>>}, s \in {<<>>, <<S>>, <<S, B>>}}
  \cup {[name |-> "numbers", vals |-> v, sep |-> <<46>>] : v \in {<<>>, <<[neg |-> FALSE, n |-> 1]>>, <<[neg |-> FALSE, n |-> 127], [neg |-> FALSE, n |-> 0]>>}}
  \cup {[name |-> "parsables", kinds |-> k, texts |-> <<<<A>>, <<A, A>>>>, sep |-> <<S>>] : k \in {<<"ok", "ok">>, <<"ok", "bad">>}}
  \cup {[name |-> "bool", b |-> b] : b \in BOOLEAN}
Result(o) == CASE o.name = "string"    -> CString(o.text)
               [] o.name = "numeric"   -> CNumeric(o.neg, o.n)
               [] o.name = "strings"   -> CStringArray(o.items, o.sep)
               [] o.name = "numbers"   -> CNumericArray(o.vals, o.sep)
               [] o.name = "parsables" -> CParsableArray(o.kinds, o.texts, o.sep)
               [] o.name = "bool"      -> CBool(o.b)

Init == /\ buf = <<>> /\ last = [op |-> [name |-> "none"], r |-> Ok(<<>>), before |-> <<>>] /\ steps = 0
        /\ probe \in {[items |-> l, style |-> st] : l \in Lists, st \in Styles}
Next == /\ steps < 3 /\ probe.items = <<>>      \* programs run beside the four empty probes only
        /\ \E o \in Ops : LET r == Result(o) IN
              /\ buf' = buf \o r.app
              /\ last' = [op |-> o, r |-> r, before |-> buf]
        /\ steps' = steps + 1
        /\ probe' = probe
Spec == Init /\ [][Next]_vars

Atomic    == last.r.k # "ok" => buf = last.before
OnlyGrows == [][Len(buf') >= Len(buf) /\ SubSeq(buf', 1, Len(buf)) = buf]_vars
\* a decimal text reads back as the number (digits only, most significant first, no leading zero but for 0)
RECURSIVE Val(_)
Val(d) == IF d = <<>> THEN 0 ELSE 10 * Val(SubSeq(d, 1, Len(d) - 1)) + (d[Len(d)] - 48)
DecimalExact == last.op.name = "numeric" =>
   LET t == last.r.app
       d == IF last.op.neg THEN Tail(t) ELSE t
   IN  /\ (last.op.neg <=> t[1] = 45) /\ d # <<>> /\ \A i \in 1..Len(d) : d[i] \in 48..57
       /\ Val(d) = last.op.n /\ (Len(d) > 1 => d[1] # 48)
ListEndsWithItem == last.op.name = "strings" /\ last.op.items # <<>> =>
   last.r.app = Join(last.op.items, last.op.sep)

JoinIsIntent == AsCodedJoin(probe.items, probe.style.sep) = Join(probe.items, probe.style.sep)

\* when does the list engine give the items back (skip_empty off, no item limit)?
Recoverable(items, st) ==
   IF st.seps = {} THEN FALSE      \* parsing without a separator is not a list
   ELSE /\ items # <<>>
        /\ \A i \in 1..Len(items) :
             /\ items[i] # <<>>
             /\ \A j \in 1..Len(items[i]) : items[i][j] \notin st.seps
             /\ (LooseBlank \/ (items[i][1] \notin st.spaces /\ items[i][Len(items[i])] \notin st.spaces))
ParsesBack(items, st) ==
   st.seps # {} /\
   LET r == PT!StringArray(AsCodedJoin(items, st.sep), st.seps, st.spaces, FALSE, -1) IN
   r.k = "ok" /\ r.items = items /\ r.pos = Len(AsCodedJoin(items, st.sep))
RecoverableIffParsesBack == Recoverable(probe.items, probe.style) <=> ParsesBack(probe.items, probe.style)
=============================================================================
