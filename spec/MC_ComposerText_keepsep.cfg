SPECIFICATION Spec
CONSTANTS
  KeepLastSep = TRUE
  LooseBlank = FALSE
INVARIANT Atomic
INVARIANT DecimalExact
INVARIANT ListEndsWithItem
INVARIANT JoinIsIntent
INVARIANT RecoverableIffParsesBack
PROPERTY OnlyGrows
CHECK_DEADLOCK FALSE
