SPECIFICATION Spec
INVARIANT NeverInvalidType
INVARIANT OneOfTheAnswers
INVARIANT ValueErrorEndsSearch
PROPERTY Stable
CHECK_DEADLOCK FALSE
