------------------------------ MODULE MC_Dispatch ------------------------------
(* All sequences of up to 3 alternative answers: the dispatcher's answer is never "invalid type", it is one of the answers
   given or "invalid value", and appending alternatives behind the deciding one never changes it. *)
EXTENDS Dispatch, TLC
Answers == {[out |-> o, n |-> n, dg |-> d] : o \in {"ok"}, n \in {1, 2}, d \in {"x", "y"}}
      \cup {[out |-> o, n |-> 0, dg |-> "-"] : o \in {"InvalidType", "InvalidValue", "TooMuchData", "NotEnoughData"}}
VARIABLES outs, exact
Init == outs = <<>> /\ exact \in BOOLEAN
Next == Len(outs) < 3 /\ \E a \in Answers : outs' = Append(outs, a) /\ UNCHANGED exact
Spec == Init /\ [][Next]_<<outs, exact>>
NeverInvalidType == Decide(outs, exact).out # "InvalidType"
OneOfTheAnswers == Decide(outs, exact) = NoneLeft \/ \E i \in 1..Len(outs) : outs[i] = Decide(outs, exact)
\* once an alternative decides, what stands behind it is irrelevant
Stable == [][Deciding(outs, exact) # {} => Decide(outs', exact') = Decide(outs, exact)]_<<outs, exact>>
\* the plain dispatcher stops at a value error of an earlier alternative: a later alternative that would accept is not consulted
ValueErrorEndsSearch == ~exact /\ Len(outs) >= 1 /\ outs[1].out = "InvalidValue" => Decide(outs, exact).out = "InvalidValue"
=============================================================================
