
