----------------------------- MODULE MC_DnsWire -----------------------------
(* sanity of the key tag transcription against the RFC 4034 5.4 example structure: for all byte strings of length 4..6
   over a small alphabet the fold equals the sum of big-endian 16-bit words (odd trailing octet padded with zero). *)
EXTENDS DnsWire, TLC
Alphabet == {0, 1, 255}
Strings == UNION {[1..k -> Alphabet] : k \in 4..6}
PadEven(b) == IF Len(b) % 2 = 1 THEN b \o <<0>> ELSE b
RECURSIVE WordSum(_)
WordSum(b) == IF b = <<>> THEN 0 ELSE b[1] * 256 + b[2] + WordSum(SubSeq(b, 3, Len(b)))
ASSUME \A s \in Strings : KeyTag(s) = (WordSum(PadEven(s)) + (WordSum(PadEven(s)) \div 65536)) % 65536
ASSUME Chunks(<<>>) = <<0>>
ASSUME Name(<<>>) = <<0>>
ASSUME PrintT(<<"DNS-LEMMAS", "ok">>)
=============================================================================
