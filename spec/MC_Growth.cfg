SPECIFICATION LSpec
CONSTANTS
  Size = 12
  Advances = {1, 2, 5}
  Variants = 3
INVARIANT LinearWork
INVARIANT CursorInRange
PROPERTY Terminates
