SPECIFICATION LSpec
CONSTANTS
  Size = 12
  Advances = {0, 1, 2}
  Variants = 3
INVARIANT LinearWork
INVARIANT CursorInRange
