SPECIFICATION Spec
CONSTANTS
  Slots <- MCSlots
  MaxSteps = 6
  SharedDefault = FALSE
  AliasInput = FALSE
  LeakyObserver = FALSE
  AliasResult = FALSE
  AliasArg = TRUE
INVARIANT Independent
INVARIANT Deterministic
INVARIANT FreshDefaults
CHECK_DEADLOCK FALSE
