SPECIFICATION Spec
CONSTANTS
  Slots <- MCSlots
  MaxSteps = 6
  SharedDefault = FALSE
  AliasInput = FALSE
  LeakyObserver = FALSE
  AliasResult = TRUE
  AliasArg = FALSE
INVARIANT Independent
INVARIANT Deterministic
INVARIANT FreshDefaults
CHECK_DEADLOCK FALSE
