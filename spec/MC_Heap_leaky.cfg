SPECIFICATION Spec
CONSTANTS
  Slots <- MCSlots
  MaxSteps = 6
  SharedDefault = FALSE
  AliasInput = FALSE
  LeakyObserver = TRUE
  AliasResult = FALSE
  AliasArg = FALSE
INVARIANT Independent
INVARIANT Deterministic
INVARIANT FreshDefaults
CHECK_DEADLOCK FALSE
