SPECIFICATION Spec
CONSTANTS
  Slots <- MCSlots
  MaxSteps = 6
  SharedDefault = TRUE
  AliasInput = FALSE
  LeakyObserver = FALSE
  AliasResult = FALSE
  AliasArg = FALSE
INVARIANT Independent
INVARIANT Deterministic
INVARIANT FreshDefaults
CHECK_DEADLOCK FALSE
