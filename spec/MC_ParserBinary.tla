---------------------------- MODULE MC_ParserBinary ----------------------------
(* Exhaustive over all buffers of up to MaxLen bytes over a small alphabet and all programs of up to 3 primitives:
   the cursor stays inside the buffer, never moves backwards, and a "not enough data" outcome asks for at least one
   byte and for no more than the primitive would consume beyond the end. *)
EXTENDS ParserBinary, TLC
CONSTANTS MaxLen, Alphabet
VARIABLES data, pos, st, steps
vars == <<data, pos, st, steps>>
Buffers == UNION {[1..n -> Alphabet] : n \in 0..MaxLen}
Hdr(w) == [i \in 1..w |-> IF pos + i <= Len(data) THEN data[pos + i] ELSE 0]
Prims == {[name |-> "parse_numeric", w |-> w] : w \in {1, 2}} \cup {[name |-> "parse_raw", w |-> k] : k \in 0..3}
      \cup {[name |-> "parse_bytes", w |-> w] : w \in {1, 2}} \cup {[name |-> "parse_parsable_sized", w |-> w] : w \in {1, 2}}
      \cup {[name |-> "parse_ssh_mpint", w |-> 4], [name |-> "parse_mpint", w |-> 2]}
Outcome(p) ==
  CASE p.name = "parse_numeric"        -> NumericArray(pos, Len(data), 1, p.w)
    [] p.name = "parse_raw"            -> Raw(pos, Len(data), p.w)
    [] p.name = "parse_bytes"          -> Prefixed(pos, Len(data), p.w, Hdr(p.w), TRUE)
    [] p.name = "parse_parsable_sized" -> ParsableSized(pos, Len(data), p.w, Hdr(p.w), TRUE)
    [] p.name = "parse_ssh_mpint"      -> SshMpint(pos, Len(data), Hdr(4))
    [] p.name = "parse_mpint"          -> Mpint(pos, Len(data), p.w)
Init == data \in Buffers /\ pos = 0 /\ st = Ok(0) /\ steps = 0
Step == /\ st.k = "ok" /\ steps < 3
        /\ \E p \in Prims : LET o == Outcome(p) IN st' = o /\ pos' = (IF o.k = "ok" THEN o.pos ELSE pos)
        /\ steps' = steps + 1 /\ UNCHANGED data
Spec == Init /\ [][Step]_vars
CursorInBuffer == PosInBuffer(pos, Len(data))
Monotone == [][pos' >= pos]_vars
NeedIsSound == st.k = "NED" => st.need >= 1
=============================================================================
