SPECIFICATION Spec
CONSTANTS
  Checked = FALSE
  MaxLen = 5
  Alphabet = {0, 1, 2, 255}
INVARIANT CursorInBuffer
INVARIANT NeedIsSound
PROPERTY Monotone
CHECK_DEADLOCK FALSE
