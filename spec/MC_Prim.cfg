SPECIFICATION Spec
INVARIANT FixedOk
INVARIANT MpintOk
INVARIANT ArithOk
INVARIANT TsOk
CHECK_DEADLOCK FALSE
