------------------------------- MODULE MC_Prim -------------------------------
(* Design-level lemmas about the reference primitives, by enumeration:
   round trip of fixed-width integers for all values 0..65535, widths 1..3, four byte
   orders; out-of-range values are Invalid; SSH mpint round trip and minimality for all
   integers -70000..70000; timestamps are the sentinel or the instant. *)
EXTENDS Prim, TLC

ToDigits(n) == LET RECURSIVE F(_) F(k) == IF k = 0 THEN <<>> ELSE F(k \div 256) \o <<k % 256>> IN F(n)
RECURSIVE ToNat(_)
ToNat(d) == IF d = <<>> THEN 0 ELSE ToNat(SubSeq(d, 1, Len(d) - 1)) * 256 + d[Len(d)]

VARIABLE v
Init == v = 0
Next == v < 70000 /\ v' = v + 1
Spec == Init /\ [][Next]_v

Orders == {"!", ">", "<", "="}
FixedOk == \A w \in 1..3, o \in Orders :
             LET d == ToDigits(v) e == Enc(d, w, o) IN
             IF v < 256 ^ w THEN Len(e) = w /\ Dec(e, o) = d /\ ToNat(Dec(e, o)) = v ELSE e = Invalid
MpintOk == \A neg \in {FALSE, TRUE} :
             LET d == ToDigits(v) b == MpintBody(neg /\ v # 0, d) IN
             /\ MpintValue(b) = <<neg /\ v # 0, d>>                       \* round trip
             /\ (b # <<>> => ~(Len(b) >= 2 /\ b[1] = 0 /\ b[2] < 128))       \* no redundant 0x00
             /\ (b # <<>> => ~(Len(b) >= 2 /\ b[1] = 255 /\ b[2] >= 128))    \* no redundant 0xff
             /\ (v = 0 => b = <<>>)
ArithOk == /\ ToNat(MulSmall(ToDigits(v), 1000)) = v * 1000
           /\ ToNat(AddSmall(ToDigits(v), 999)) = v + 999
TsOk == /\ EncTs(TRUE, ToDigits(v), 0, 8, FALSE) = Ones(8)
        /\ ToNat(Strip(EncTs(FALSE, ToDigits(v), 7, 8, TRUE))) = v * 1000 + 7
=============================================================================
