----------------------------- MODULE MC_Serialize -----------------------------
EXTENDS Serialize
MCObjects == { [cls |-> "CertV00", field |-> "key_id", label |-> "Key ID", members |-> {1, 2}],
               [cls |-> "CertV01", field |-> "key_id", label |-> "Key Id", members |-> {2, 3}],
               [cls |-> "Flags", field |-> "flags", label |-> "Flags", members |-> {1, 2, 3}] }
MCPerms == {<<1, 2, 3>>, <<3, 2, 1>>, <<2, 3, 1>>}
=============================================================================
