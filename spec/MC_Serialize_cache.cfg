SPECIFICATION Spec
CONSTANTS
  Objects <- MCObjects
  Perms <- MCPerms
  CacheByName = TRUE
  UnsortedSets = FALSE
  PinEncoder = FALSE
  MaxSteps = 5
INVARIANT Deterministic
CHECK_DEADLOCK FALSE
