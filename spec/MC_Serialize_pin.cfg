SPECIFICATION Spec
CONSTANTS
  Objects <- MCObjects
  Perms <- MCPerms
  CacheByName = FALSE
  UnsortedSets = FALSE
  PinEncoder = TRUE
  MaxSteps = 5
INVARIANT Deterministic
CHECK_DEADLOCK FALSE
