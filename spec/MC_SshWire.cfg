
