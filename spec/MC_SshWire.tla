----------------------------- MODULE MC_SshWire -----------------------------
(* design-level lemma: the padding rule for every payload length 0..35000 *)
EXTENDS SshWire, TLC
ASSUME \A n \in 0..35000 : PacketTotal(n) % 8 = 0 /\ PadLen(n) >= 4 /\ PadLen(n) <= 255 /\ PacketLength(n) = 1 + n + PadLen(n)
ASSUME PrintT(<<"PADDING-RULE", "ok for payload lengths 0..35000">>)
=============================================================================
