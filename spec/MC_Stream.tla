------------------------------ MODULE MC_Stream ------------------------------
EXTENDS Stream
\* header 2 + payload 0,2,1 ; a header-only frame, and frames of different length
MCFrames == << [h |-> 2, len |-> 2], [h |-> 2, len |-> 4], [h |-> 3, len |-> 4], [h |-> 2, len |-> 3] >>
=============================================================================
