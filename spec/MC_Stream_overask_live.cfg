SPECIFICATION Spec
CONSTANTS
  Frames <- MCFrames
  MaxChunk = 3
  LockStep = TRUE
  ParserMode = "overask"



PROPERTY NoPrefixAccept
PROPERTY InOrder
PROPERTY Progress
