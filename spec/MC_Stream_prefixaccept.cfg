SPECIFICATION Spec
CONSTANTS
  Frames <- MCFrames
  MaxChunk = 3
  LockStep = FALSE
  ParserMode = "prefixaccept"
INVARIANT TypeOK
INVARIANT NoOverAsk
INVARIANT FramesIntact
PROPERTY NoPrefixAccept
PROPERTY InOrder
PROPERTY Progress
