SPECIFICATION Spec
CONSTANTS
  Frames <- MCFrames
  MaxChunk = 3
  LockStep = TRUE
  ParserMode = "typical"
INVARIANT TypeOK
INVARIANT NoOverAsk
INVARIANT FramesIntact
PROPERTY NoPrefixAccept
PROPERTY InOrder
PROPERTY Progress
