SPECIFICATION Spec
CONSTANTS
  MinB = 1
  MaxB = 3
  Items <- MCItemsVar
  FixedSize = 0
  SliceSum = TRUE
  Atomic = FALSE
  MaxXs = 2
  MaxSliceXs = 1
INVARIANT Sync
INVARIANT BoundedAtRest
INVARIANT NoCrash
PROPERTY Refines
CHECK_DEADLOCK FALSE
