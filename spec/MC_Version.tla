---------------------------- MODULE MC_Version ----------------------------
(* Design-level check of C17: the order demanded by the property is satisfiable
   (RankLess is a model of the axioms over all 38 codes) and the arrival machine is
   order-independent under it.  MC_Version_prefix.cfg runs the same machine with the
   relation as coded before the fix and is expected to produce a counterexample. *)
EXTENDS Version, TLC

AllCodes == {2, 768, 769, 770, 771, 772, 32257, 32258, 32259} \cup {32512 + d : d \in 0..28}
\* a universe that contains every kind of version and both ends of the draft range
MCUniverse == {2, 768, 771, 772, 32257, 32258, 32512, 32530, 32540}

EqOp(a, b) == a = b
ASSUME Irreflexive(AllCodes, RankLess)
ASSUME Trichotomous(AllCodes, RankLess, EqOp)
ASSUME Transitive(AllCodes, RankLess)
ASSUME Compatible(AllCodes, RankLess)
\* and the mutant really is broken (guards against a vacuous mutant)
ASSUME ~Transitive(AllCodes, PrefixLess)
=============================================================================
