SPECIFICATION Spec
CONSTANTS
  Universe <- ImplCodes
  Less <- ImplLess
  MaxArrivals = 3
INVARIANT MaxIsMaximal
INVARIANT MinIsMinimal
INVARIANT SortedIsSorted
INVARIANT SortedIsArrived
INVARIANT RespectsProperty
CHECK_DEADLOCK FALSE
