-------------------------- MODULE MC_VersionImpl --------------------------
(* C17, histories: the arrival machine of Version.tla instantiated with the comparison
   relation *of the implementation* (line 1 of the trace file: the full matrix recorded
   from TlsProtocolVersion.__lt__).  TLC explores every order of arrival of every subset
   of at most MaxArrivals of the defined versions. *)
EXTENDS Version, Json, IOUtils, TLC

M == ndJsonDeserialize(IOEnv.TRACE_FILE)[1]
ImplCodes == {M.codes[i] : i \in 1..Len(M.codes)}
IdxOf == [c \in ImplCodes |-> CHOOSE i \in 1..Len(M.codes) : M.codes[i] = c]
ImplLess(a, b) == M.lt[IdxOf[a]][IdxOf[b]]
=============================================================================
