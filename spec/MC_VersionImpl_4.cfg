SPECIFICATION Spec
CONSTANTS
  Universe <- ImplCodes
  Less <- ImplLess
  MaxArrivals = 4
INVARIANT MaxIsMaximal
INVARIANT MinIsMinimal
INVARIANT SortedIsSorted
INVARIANT SortedIsArrived
INVARIANT RespectsProperty
CHECK_DEADLOCK FALSE
