SPECIFICATION Spec
CONSTANTS
  Universe <- MCUniverse
  Less <- PrefixLess
  MaxArrivals = 5
INVARIANT MaxIsMaximal
INVARIANT MinIsMinimal
INVARIANT SortedIsSorted
INVARIANT SortedIsArrived
INVARIANT RespectsProperty
CHECK_DEADLOCK FALSE
