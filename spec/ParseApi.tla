------------------------------ MODULE ParseApi ------------------------------
(* The contract of the three parse entry points of every parsable class
   (cryptoparser/common/parse.py:24-51), written from the property texts C02/C03:

     parse_immutable(buf) -> (object, n)      0 <= n <= Len(buf); buf untouched
     parse_mutable(buf)   -> object           removes exactly the first n bytes, nothing else;
                                              a failed parse leaves buf untouched
     parse_exact_size(buf)-> object           succeeds precisely when n = Len(buf);
                                              n < Len(buf) is "too much data"
   Outcomes: "ok" or the NAME of the exception that escaped.  The four documented
   parse errors are the only failures a caller has to expect (C02). *)
EXTENDS Naturals, Sequences

Documented == {"NotEnoughData", "TooMuchData", "InvalidValue", "InvalidType"}
Outcome    == {"ok"} \cup Documented
IsDocumented(out) == out \in Outcome

\* C03 clauses over one observation  e = [len, imm, mut, exact, positive]
ConsumedInRange(e)  == e.imm.out = "ok" => (e.imm.n >= 0 /\ e.imm.n <= e.len /\ (e.positive => e.imm.n > 0))
ImmutableUntouched(e) == e.imm.unchanged
MutableAgrees(e)    == e.mut.out = e.imm.out
MutableRemovesPrefix(e) == e.mut.out = "ok" /\ e.imm.out = "ok" =>
                              (e.mut.after = e.len - e.imm.n /\ e.mut.tail_ok /\ e.mut.same)
FailureLeavesBuffer(e) == e.mut.out # "ok" => e.mut.unchanged
ExactIffAll(e) == IF e.imm.out = "ok"
                  THEN IF e.imm.n = e.len THEN e.exact.out = "ok" /\ e.exact.same
                       ELSE e.exact.out = "TooMuchData"
                  ELSE e.exact.out # "ok"        \* which error is C02's business, not C03's

\* C01 - compose then parse: an object that has a wire form parses back to itself, consuming every byte.
\* e = [compose, wire_len, parse, n, p, back]   (p / back: projection digests of the object before / after)
HasWireForm(e) == e.compose = "ok"
NoWireForm(e)  == e.compose \in Documented            \* e.g. a value that does not fit its field: trivial case
RoundTrip(e)   == HasWireForm(e) => e.parse = "ok" /\ e.n = e.wire_len /\ e.back = e.p

\* C05 - re-serialising an accepted input is a stable canonical form, reached in one step.
\* e = [c1, parse2, n2, len2, same12, c2, stable]
Canonical(e) == /\ e.c1 = "ok"                          \* composing what was parsed succeeds
                /\ e.parse2 = "ok" /\ e.n2 = e.len2      \* the composed bytes are accepted again, completely
                /\ e.same12                              \* ... and mean the same
                /\ e.c2 = "ok" /\ e.stable               \* ... and composing again yields the very same bytes
=============================================================================
