------------------------------ MODULE ParseApi ------------------------------
(* The contract of the three parse entry points of every parsable class
   (cryptoparser/common/parse.py:24-51), written from the property texts C02/C03:

     parse_immutable(buf) -> (object, n)      0 <= n <= Len(buf); buf untouched
     parse_mutable(buf)   -> object           removes exactly the first n bytes, nothing else;
                                              a failed parse leaves buf untouched
     parse_exact_size(buf)-> object           succeeds precisely when n = Len(buf);
                                              n < Len(buf) is "too much data"
   Outcomes: "ok" or the NAME of the exception that escaped.  The four documented
   parse errors are the only failures a caller has to expect (C02). *)
EXTENDS Naturals, Sequences

Documented == {"NotEnoughData", "TooMuchData", "InvalidValue", "InvalidType"}
Outcome    == {"ok"} \cup Documented
IsDocumented(out) == out \in Outcome

\* C03 clauses over one observation  e = [len, imm, mut, exact, positive]
ConsumedInRange(e)  == e.imm.out = "ok" => (e.imm.n >= 0 /\ e.imm.n <= e.len /\ (e.positive => e.imm.n > 0))
ImmutableUntouched(e) == e.imm.unchanged
MutableAgrees(e)    == e.mut.out = e.imm.out
MutableRemovesPrefix(e) == e.mut.out = "ok" /\ e.imm.out = "ok" =>
                              (e.mut.after = e.len - e.imm.n /\ e.mut.tail_ok /\ e.mut.same)
FailureLeavesBuffer(e) == e.mut.out # "ok" => e.mut.unchanged
ExactIffAll(e) == IF e.imm.out = "ok"
                  THEN IF e.imm.n = e.len THEN e.exact.out = "ok" /\ e.exact.same
                       ELSE e.exact.out = "TooMuchData"
                  ELSE e.exact.out # "ok"        \* which error is C02's business, not C03's
=============================================================================
