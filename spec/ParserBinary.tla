----------------------------- MODULE ParserBinary -----------------------------
(* The binary parser engine AS CODED (cryptoparser/common/parse.py:485-738): a cursor `pos` over an immutable
   buffer of `len` bytes; one operator per public primitive giving the outcome the code produces -
   [k |-> "ok", pos |-> p'] or [k |-> "NED", need |-> n] ("not enough data", cursor unchanged) - from the
   arguments, the cursor, the buffer length and the bytes at the cursor.  Primitives that hand over to another
   parser (unsized parsable, variant, arrays) are not determined by these inputs: for them only the cursor
   laws are stated.  Other documented errors (invalid value / type, too much data from a nested exact-size
   parse) leave the cursor where it was.

   Switch Checked (TRUE = the current tree): FALSE reproduces the code before the repairs - the sized parsable
   and the SSH mpint add the DECLARED length to the cursor without looking at the buffer - and is kept as a
   specification-level mutant that MC_ParserBinary must reject (PosInBuffer).

   Used by C03 (the cursor never leaves the buffer, the consumed length is exact), C04 (the missing-byte count
   of every primitive is at least 1 and never more than what is missing) and C19 (every successful primitive
   that is given work advances the cursor). *)
EXTENDS Integers, Sequences

CONSTANT Checked

\* unsigned integer in the first w bytes of h; TLC integers are 32 bit: values of 2^31 and above saturate at Huge
Huge == 2147483647
Mul256(x) == IF x >= 8388608 THEN Huge ELSE x * 256
Plus(x, b) == IF x >= Huge - 255 THEN Huge ELSE x + b
RECURSIVE ValBE(_, _)
ValBE(h, w) == IF w = 0 THEN 0 ELSE Plus(Mul256(ValBE(h, w - 1)), h[w])
Rev4(h, w) == [i \in 1..w |-> h[w + 1 - i]]
Val(h, w, big) == IF big THEN ValBE(h, w) ELSE ValBE(Rev4(h, w), w)
Ok(p)  == [k |-> "ok", pos |-> p, need |-> 0]
NED(n) == [k |-> "NED", pos |-> -1, need |-> n]

Unparsed(pos, len) == len - pos

NumericArray(pos, len, count, w) ==
   IF pos + count * w > len THEN NED(count * w - Unparsed(pos, len)) ELSE Ok(pos + count * w)
Raw(pos, len, size) ==
   IF Unparsed(pos, len) < size THEN NED(size - Unparsed(pos, len)) ELSE Ok(pos + size)
\* length-prefixed bytes / string: header, then body; the cursor is restored when the body is short
Prefixed(pos, len, w, h, big) ==
   IF Unparsed(pos, len) < w THEN NED(w - Unparsed(pos, len))
   ELSE LET L == Val(h, w, big) IN
        IF Unparsed(pos, len) - w < L THEN NED(IF L = Huge THEN Huge ELSE L - (Unparsed(pos, len) - w)) ELSE Ok(pos + w + L)
\* parse_parsable(item_size = w): slice of the declared length, parse_exact_size, cursor += w + L
ParsableSized(pos, len, w, h, big) ==
   IF Unparsed(pos, len) < w THEN NED(w - Unparsed(pos, len))
   ELSE LET L == Val(h, w, big) IN
        IF Checked /\ Unparsed(pos, len) - w < L THEN NED(IF L = Huge THEN Huge ELSE L - (Unparsed(pos, len) - w)) ELSE Ok(IF L = Huge THEN Huge ELSE pos + w + L)
SshMpint(pos, len, h) ==
   IF Unparsed(pos, len) < 4 THEN NED(4 - Unparsed(pos, len))
   ELSE LET L == Val(h, 4, TRUE) IN
        IF Checked /\ Unparsed(pos, len) - 4 < L THEN NED(IF L = Huge THEN Huge ELSE L - (Unparsed(pos, len) - 4)) ELSE Ok(IF L = Huge THEN Huge ELSE pos + 4 + L)
Mpint(pos, len, length) ==
   IF Unparsed(pos, len) < length THEN NED(length - Unparsed(pos, len)) ELSE Ok(pos + length)
NulString(pos, len, nulat) ==                                       \* nulat: offset of the first NUL from the cursor, -1 = none
   IF nulat < 0 THEN [k |-> "INV", pos |-> -1, need |-> 0] ELSE Ok(pos + nulat + 1)
SizedArray(pos, len, size) ==                                        \* parse_parsable_array / _derived_array(items_size)
   IF size > Unparsed(pos, len) THEN NED(size - Unparsed(pos, len)) ELSE Ok(pos + size)

\* the primitive named in an event e = [name, pos0, len, w, count, size, big, hdr, nulat]
Model(e) ==
  CASE e.name \in {"parse_numeric", "parse_timestamp", "parse_numeric_flags"} -> NumericArray(e.pos0, e.len, 1, e.w)
    [] e.name = "parse_numeric_array" -> NumericArray(e.pos0, e.len, e.count, e.w)
    [] e.name = "parse_raw"           -> Raw(e.pos0, e.len, e.size)
    [] e.name \in {"parse_bytes", "parse_string"} -> Prefixed(e.pos0, e.len, e.w, e.hdr, e.big)
    [] e.name = "parse_parsable_sized" -> ParsableSized(e.pos0, e.len, e.w, e.hdr, e.big)
    [] e.name = "parse_ssh_mpint"     -> SshMpint(e.pos0, e.len, e.hdr)
    [] e.name = "parse_mpint"         -> Mpint(e.pos0, e.len, e.size)
    [] e.name = "parse_string_null_terminated" -> NulString(e.pos0, e.len, e.nulat)
    [] e.name \in {"parse_parsable_array", "parse_parsable_derived_array"} -> SizedArray(e.pos0, e.len, e.size)
Determined(e) == e.name \in {"parse_numeric", "parse_timestamp", "parse_numeric_flags", "parse_numeric_array", "parse_raw", "parse_bytes",
                             "parse_string", "parse_parsable_sized", "parse_ssh_mpint", "parse_mpint", "parse_string_null_terminated",
                             "parse_parsable_array", "parse_parsable_derived_array"}

\* laws of every primitive, determined or not
PosInBuffer(pos, len) == pos >= 0 /\ pos <= len
=============================================================================
