------------------------------ MODULE ParserText ------------------------------
(* The text list engine AS CODED (cryptoparser/common/parse.py:180-441: _check_separators,
   _parse_string_until_separator, _parse_string_array), transcribed loop by loop over a text given as a
   sequence of characters, and the list rule it is meant to implement (RFC 9110 5.6.1: elements separated by the
   separator, optional whitespace around elements, empty elements ignored when skip_empty is set).

   Result: [k |-> "ok", items |-> <<...>>, pos |-> consumed] or [k |-> "INV"].
   Parameters: Seps (set of separator characters), Spaces (set of characters that may surround an element;
   {} when the caller passes no separator_spaces), SkipEmpty. *)
EXTENDS Integers, Sequences

INV == [k |-> "INV", items |-> <<>>, pos |-> 0]

\* _check_separators(offset, chars, min, max): number of consecutive chars at offset; -1 = InvalidValue.  max < 0: unlimited
RECURSIVE RunLen(_, _, _)
RunLen(t, off, chars) == IF off + 1 <= Len(t) /\ t[off + 1] \in chars THEN 1 + RunLen(t, off + 1, chars) ELSE 0
CheckSeps(t, off, chars, min, max) ==
   LET n == RunLen(t, off, chars) IN IF (max >= 0 /\ n > max) \/ n < min THEN -1 ELSE n

\* _parse_string_until_separator(offset, may_end = TRUE): <<item, parsed length>>; the parsed length excludes trailing spaces
RECURSIVE FirstSep(_, _, _)
FirstSep(t, off, seps) == IF off + 1 > Len(t) THEN Len(t) ELSE IF t[off + 1] \in seps THEN off ELSE FirstSep(t, off + 1, seps)
RECURSIVE TrailSpaces(_, _, _, _)
TrailSpaces(t, start, end, spaces) == IF end > start /\ t[end] \in spaces THEN 1 + TrailSpaces(t, start, end - 1, spaces) ELSE 0
UntilSep(t, off, seps, spaces) ==
   LET end == FirstSep(t, off, seps)
       sp == TrailSpaces(t, off, end, spaces)
   IN  <<SubSeq(t, off + 1, end - sp), end - off - sp>>

\* _parse_string_array: the loop, one iteration per call
RECURSIVE Loop(_, _, _, _, _, _, _)
Loop(t, off, value, seps, spaces, skip, maxitems) ==
   LET u == UntilSep(t, off, seps, spaces)
       value1 == IF u[2] > 0 THEN Append(value, u[1]) ELSE value
       off1 == off + u[2]
   IN  IF u[2] = 0 /\ ~skip THEN INV
       ELSE LET off2 == off1 + (IF spaces # {} THEN RunLen(t, off1, spaces) ELSE 0) IN
            IF off2 = Len(t) THEN [k |-> "ok", items |-> value1, pos |-> off2]
            ELSE LET c == CheckSeps(t, off2, seps, 1, IF skip THEN -1 ELSE 1) IN
                 IF c < 0 THEN INV
                 ELSE LET off3 == off2 + c
                          off4 == off3 + (IF spaces # {} THEN RunLen(t, off3, spaces) ELSE 0)
                      IN  IF off4 = Len(t) THEN [k |-> "ok", items |-> value1, pos |-> off4]
                          ELSE IF maxitems >= 0 /\ Len(value1) = maxitems THEN [k |-> "ok", items |-> value1, pos |-> off4]
                          ELSE Loop(t, off4, value1, seps, spaces, skip, maxitems)
StringArray(t, seps, spaces, skip, maxitems) ==
   Loop(t, IF spaces # {} THEN RunLen(t, 0, spaces) ELSE 0, <<>>, seps, spaces, skip, maxitems)

-----------------------------------------------------------------------------
(* The other primitives of ParserText AS CODED, over the text from the cursor on.  Result: [k |-> "ok", items |-> texts, pos]
   or INV (invalid value) or NED (not enough data). *)
NED == [k |-> "NED", items |-> <<>>, pos |-> 0]
IsDigit(c) == c \in 48..57
RECURSIVE DigitRun(_, _)
DigitRun(t, off) == IF off + 1 <= Len(t) /\ IsDigit(t[off + 1]) THEN 1 + DigitRun(t, off + 1) ELSE 0

\* _parse_numeric_array(item_num, separator, is_floating): items are the texts handed to the converter.
\* itemnum < 0: no limit; seps = {}: no separator
RECURSIVE NumLoop(_, _, _, _, _, _, _, _)
NumLoop(t, last, off0, fp, vals, itemnum, seps, floating) ==
   LET off == off0 + DigitRun(t, off0) IN
   IF off = last THEN INV
   ELSE IF floating /\ ~fp /\ off < Len(t) /\ t[off + 1] = 46 THEN NumLoop(t, last, off + 1, TRUE, vals, itemnum, seps, floating)
   ELSE LET vals1 == Append(vals, SubSeq(t, last + 1, off)) IN
        IF off = Len(t) \/ (itemnum >= 0 /\ Len(vals1) = itemnum) THEN [k |-> "ok", items |-> vals1, pos |-> off]
        ELSE LET c == IF seps # {} THEN CheckSeps(t, off, seps, 1, 1) ELSE 0 IN
             IF c < 0 THEN INV ELSE NumLoop(t, off + c, off + c, FALSE, vals1, itemnum, seps, floating)
NumericArray(t, itemnum, seps, floating) == NumLoop(t, 0, 0, FALSE, <<>>, itemnum, seps, floating)

\* parse_separator(separator, min_length, max_length): max < 0 = no maximum
Separator(t, seps, min, max) ==
   LET c == CheckSeps(t, 0, seps, min, max) IN IF c < 0 THEN INV ELSE [k |-> "ok", items |-> <<>>, pos |-> c]

\* parse_string_until_separator (mayend = FALSE) / _or_end (TRUE), single-character separators
Until(t, seps, mayend) ==
   LET end == FirstSep(t, 0, seps) IN
   IF end = Len(t) /\ ~mayend THEN INV ELSE [k |-> "ok", items |-> <<SubSeq(t, 1, end)>>, pos |-> end]

\* parse_string(value): the literal or nothing (also when the text is too short)
Literal(t, lit) ==
   IF Len(t) >= Len(lit) /\ SubSeq(t, 1, Len(lit)) = lit THEN [k |-> "ok", items |-> <<lit>>, pos |-> Len(lit)] ELSE INV
\* parse_bool: "yes" / "no"
BoolText(t) == IF Literal(t, <<121, 101, 115>>).k = "ok" THEN [k |-> "ok", items |-> <<<<1>>>>, pos |-> 3]
               ELSE IF Literal(t, <<110, 111>>).k = "ok" THEN [k |-> "ok", items |-> <<<<0>>>>, pos |-> 2] ELSE INV
\* parse_string_by_length(min, max): max < 0 = to the end
ByLength(t, min, max) ==
   IF min > Len(t) THEN NED
   ELSE LET n == IF max < 0 THEN Len(t) ELSE (IF max < Len(t) THEN max ELSE Len(t)) IN [k |-> "ok", items |-> <<SubSeq(t, 1, n)>>, pos |-> n]

-----------------------------------------------------------------------------
(* intent: split at separators, trim, drop empty elements *)
RECURSIVE Split(_, _)
Split(t, seps) == LET e == FirstSep(t, 0, seps) IN
                  IF e = Len(t) THEN <<t>> ELSE <<SubSeq(t, 1, e)>> \o Split(SubSeq(t, e + 2, Len(t)), seps)
RECURSIVE TrimL(_, _)
TrimL(s, spaces) == IF s # <<>> /\ Head(s) \in spaces THEN TrimL(Tail(s), spaces) ELSE s
RECURSIVE TrimR(_, _)
TrimR(s, spaces) == IF s # <<>> /\ s[Len(s)] \in spaces THEN TrimR(SubSeq(s, 1, Len(s) - 1), spaces) ELSE s
Trim(s, spaces) == TrimR(TrimL(s, spaces), spaces)
ListRule(t, seps, spaces) == SelectSeq([i \in 1..Len(Split(t, seps)) |-> Trim(Split(t, seps)[i], spaces)], LAMBDA x : x # <<>>)
=============================================================================
