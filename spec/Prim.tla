-------------------------------- MODULE Prim --------------------------------
(* C11 - integer, flag, mpint and timestamp primitives, written from their definitions
   (RFC 4251 section 5 for SSH mpint; two's complement; POSIX time) over byte sequences.

   A natural number is its sequence of base-256 DIGITS, most significant first, without
   leading zeros (<<>> is 0), so values of any size cross the 32-bit limit of TLC. *)
EXTENDS Integers, Sequences, Bitwise

Digits == Seq(0..255)
RECURSIVE Zeros(_)
Zeros(n) == IF n <= 0 THEN <<>> ELSE <<0>> \o Zeros(n - 1)
RECURSIVE Rev(_)
Rev(s) == IF s = <<>> THEN <<>> ELSE Rev(Tail(s)) \o <<Head(s)>>
RECURSIVE Strip(_)
Strip(s) == IF s # <<>> /\ Head(s) = 0 THEN Strip(Tail(s)) ELSE s          \* drop leading zeros

Invalid == <<-1>>          \* not a byte string: comparable with byte strings in TLC

\* fixed-width unsigned integer: defined only when the value fits
EncBE(d, w) == IF Len(d) > w THEN Invalid ELSE Zeros(w - Len(d)) \o d
EncLE(d, w) == IF Len(d) > w THEN Invalid ELSE Rev(Zeros(w - Len(d)) \o d)
\* byte orders of the library: "!" network, ">" big, "<" little, "=" native (x86-64: little)
Enc(d, w, order) == IF order \in {"!", ">"} THEN EncBE(d, w) ELSE EncLE(d, w)
Dec(b, order)    == IF order \in {"!", ">"} THEN Strip(b) ELSE Strip(Rev(b))

\* small-number arithmetic on digit strings (least significant digit last)
RECURSIVE MulSmallR(_, _, _)          \* on the reversed string: digits, multiplier, carry
MulSmallR(r, m, c) == IF r = <<>> THEN (IF c = 0 THEN <<>> ELSE MulSmallR(<<0>>, 0, c))
                      ELSE LET t == Head(r) * m + c IN <<t % 256>> \o
                           (IF Tail(r) = <<>> /\ t \div 256 = 0 THEN <<>> ELSE
                            IF Tail(r) = <<>> THEN MulSmallR(<<0>>, 0, t \div 256) ELSE MulSmallR(Tail(r), m, t \div 256))
MulSmall(d, m) == Strip(Rev(MulSmallR(Rev(d), m, 0)))
RECURSIVE AddSmallR(_, _)
AddSmallR(r, c) == IF c = 0 THEN r
                   ELSE IF r = <<>> THEN <<c % 256>> \o AddSmallR(<<>>, c \div 256)
                   ELSE LET t == Head(r) + c IN <<t % 256>> \o AddSmallR(Tail(r), t \div 256)
AddSmall(d, a) == Strip(Rev(AddSmallR(Rev(d), a)))

\* two's complement of a magnitude in n bytes (n large enough): invert, add one
Invert(b) == [i \in 1..Len(b) |-> 255 - b[i]]
TwosComp(mag, n) == LET padded == Zeros(n - Len(mag)) \o mag
                        inc == AddSmallR(Rev(Invert(padded)), 1)
                    IN  Rev(SubSeq(inc, 1, n))

\* RFC 4251: mpint = two's complement, big-endian, shortest form; zero = empty string;
\* a leading 0x00 / 0xff only when needed to give the right sign
MinimalNeg(b) == LET RECURSIVE F(_)
                     F(s) == IF Len(s) >= 2 /\ s[1] = 255 /\ s[2] >= 128 THEN F(Tail(s)) ELSE s
                 IN F(b)
MpintBody(neg, mag) == IF mag = <<>> THEN <<>>
                       ELSE IF ~neg THEN (IF mag[1] >= 128 THEN <<0>> \o mag ELSE mag)
                       ELSE MinimalNeg(TwosComp(mag, Len(mag) + 1))
U32(n) == <<(n \div 16777216) % 256, (n \div 65536) % 256, (n \div 256) % 256, n % 256>>
SshMpint(neg, mag) == U32(Len(MpintBody(neg, mag))) \o MpintBody(neg, mag)
\* value of a two's complement body as <<neg, mag>>
MpintValue(b) == IF b = <<>> THEN <<FALSE, <<>>>>
                 ELSE IF b[1] < 128 THEN <<FALSE, Strip(b)>>
                 ELSE <<TRUE, Strip(TwosComp(b, Len(b)))>>
\* fixed-length (left-padded) non-negative integer, e.g. DNSKEY / RSA parameters
FixedMpint(mag, n) == IF Len(mag) > n THEN Invalid ELSE Zeros(n - Len(mag)) \o mag

\* flags: OR of the member values (each a digit string of the field width), optional shift handled by the harness
RECURSIVE OrBytes(_, _)
OrBytes(a, b) == IF a = <<>> THEN <<>> ELSE <<Head(a) | Head(b)>> \o OrBytes(Tail(a), Tail(b))
RECURSIVE OrAll(_, _)
OrAll(ms, w) == IF ms = <<>> THEN Zeros(w) ELSE OrBytes(EncBE(Head(ms), w), OrAll(Tail(ms), w))

\* timestamps: a function of the INSTANT only (seconds since the epoch as digits, plus milliseconds 0..999);
\* "forever" is the all-ones sentinel.  The time zone of the machine is not an argument.
Ones(w) == [i \in 1..w |-> 255]
EncTs(forever, secs, millis, w, ms) ==
   IF forever THEN Ones(w)
   ELSE EncBE(IF ms THEN AddSmall(MulSmall(secs, 1000), millis) ELSE secs, w)
=============================================================================
