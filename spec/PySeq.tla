------------------------------- MODULE PySeq -------------------------------
(* Python list index semantics over TLA+ sequences (1-based), written from the Python
   language reference (sequence types, slicing with step 1 and extended slices).  Indices handed to these
   operators are Python indices (0-based, negative = from the end). *)
EXTENDS Integers, Sequences

Take(s, k) == SubSeq(s, 1, k)
Drop(s, k) == SubSeq(s, k + 1, Len(s))
Max2(a, b) == IF a > b THEN a ELSE b
Min2(a, b) == IF a < b THEN a ELSE b

\* int index: valid iff -n <= i < n
InRange(i, n) == -n <= i /\ i < n
Norm(i, n)    == IF i < 0 THEN i + n ELSE i              \* 0-based position
\* slice bound / insert position: clipped into 0..n
Clip(i, n)    == IF i < 0 THEN Max2(0, i + n) ELSE Min2(i, n)

PyInsertAt(s, i, x)  == LET p == Clip(i, Len(s)) IN Take(s, p) \o <<x>> \o Drop(s, p)
PyRemoveAt(s, i)     == LET p == Norm(i, Len(s)) IN Take(s, p) \o Drop(s, p + 1)
PyReplaceAt(s, i, x) == LET p == Norm(i, Len(s)) IN Take(s, p) \o <<x>> \o Drop(s, p + 1)
\* s[a:b] (step 1): lo..hi with hi >= lo
SliceLo(s, a)      == Clip(a, Len(s))
SliceHi(s, a, b)   == Max2(Clip(b, Len(s)), SliceLo(s, a))
SliceOf(s, a, b)   == SubSeq(s, SliceLo(s, a) + 1, SliceHi(s, a, b))
Splice(s, a, b, xs) == Take(s, SliceLo(s, a)) \o xs \o Drop(s, SliceHi(s, a, b))
Rev(s)             == [k \in 1..Len(s) |-> s[Len(s) + 1 - k]]
\* extended slices s[a:b:k], k # 0 (language reference 3.3.7 / slice.indices): a and b may be Open (omitted)
Open == 99
XStart(a, k, n) == IF k > 0 THEN (IF a = Open THEN 0 ELSE Clip(a, n))
                   ELSE (IF a = Open THEN n - 1 ELSE IF a < 0 THEN Max2(a + n, -1) ELSE Min2(a, n - 1))
XStop(b, k, n)  == IF k > 0 THEN (IF b = Open THEN n ELSE Clip(b, n))
                   ELSE (IF b = Open THEN -1 ELSE IF b < 0 THEN Max2(b + n, -1) ELSE Min2(b, n - 1))
XCount(lo, hi, k) == IF k > 0 THEN (IF hi > lo THEN (hi - lo - 1) \div k + 1 ELSE 0)
                     ELSE (IF lo > hi THEN (lo - hi - 1) \div (0 - k) + 1 ELSE 0)
\* the selected positions (1-based), in selection order
XPos(s, a, b, k) == LET n == Len(s) lo == XStart(a, k, n) hi == XStop(b, k, n) IN
                    [t \in 1..XCount(lo, hi, k) |-> lo + (t - 1) * k + 1]
XSel(s, a, b, k) == LET ps == XPos(s, a, b, k) IN [t \in 1..Len(ps) |-> s[ps[t]]]
XDel(s, a, b, k) == LET ps == XPos(s, a, b, k)
                        I == {ps[t] : t \in 1..Len(ps)}
                        F[i \in 0..Len(s)] == IF i = 0 THEN <<>> ELSE IF i \in I THEN F[i - 1] ELSE Append(F[i - 1], s[i])
                    IN F[Len(s)]
\* assignment to an extended slice needs exactly as many values as positions
XSet(s, a, b, k, xs) == LET ps == XPos(s, a, b, k) IN
                        [p \in 1..Len(s) |-> IF \E t \in 1..Len(ps) : ps[t] = p
                                              THEN xs[CHOOSE t \in 1..Len(ps) : ps[t] = p] ELSE s[p]]
FirstIndexOf(s, x) == IF \E k \in 1..Len(s) : s[k] = x
                      THEN (CHOOSE k \in 1..Len(s) : s[k] = x /\ \A j \in 1..(k - 1) : s[j] # x) - 1
                      ELSE -1                                \* 0-based, -1 = absent
=============================================================================
