------------------------------- MODULE PySeq -------------------------------
(* Python list index semantics over TLA+ sequences (1-based), written from the Python
   language reference (sequence types, slicing with step 1).  Indices handed to these
   operators are Python indices (0-based, negative = from the end). *)
EXTENDS Integers, Sequences

Take(s, k) == SubSeq(s, 1, k)
Drop(s, k) == SubSeq(s, k + 1, Len(s))
Max2(a, b) == IF a > b THEN a ELSE b
Min2(a, b) == IF a < b THEN a ELSE b

\* int index: valid iff -n <= i < n
InRange(i, n) == -n <= i /\ i < n
Norm(i, n)    == IF i < 0 THEN i + n ELSE i              \* 0-based position
\* slice bound / insert position: clipped into 0..n
Clip(i, n)    == IF i < 0 THEN Max2(0, i + n) ELSE Min2(i, n)

PyInsertAt(s, i, x)  == LET p == Clip(i, Len(s)) IN Take(s, p) \o <<x>> \o Drop(s, p)
PyRemoveAt(s, i)     == LET p == Norm(i, Len(s)) IN Take(s, p) \o Drop(s, p + 1)
PyReplaceAt(s, i, x) == LET p == Norm(i, Len(s)) IN Take(s, p) \o <<x>> \o Drop(s, p + 1)
\* s[a:b] (step 1): lo..hi with hi >= lo
SliceLo(s, a)      == Clip(a, Len(s))
SliceHi(s, a, b)   == Max2(Clip(b, Len(s)), SliceLo(s, a))
SliceOf(s, a, b)   == SubSeq(s, SliceLo(s, a) + 1, SliceHi(s, a, b))
Splice(s, a, b, xs) == Take(s, SliceLo(s, a)) \o xs \o Drop(s, SliceHi(s, a, b))
Rev(s)             == [k \in 1..Len(s) |-> s[Len(s) + 1 - k]]
FirstIndexOf(s, x) == IF \E k \in 1..Len(s) : s[k] = x
                      THEN (CHOOSE k \in 1..Len(s) : s[k] = x /\ \A j \in 1..(k - 1) : s[j] # x) - 1
                      ELSE -1                                \* 0-based, -1 = absent
=============================================================================
