------------------------------ MODULE Serialize ------------------------------
(* C14 - JSON and Markdown output is deterministic: the result of serialising an object is a
   function of the object alone - not of which objects were serialised before, not of
   process-wide state, not of the order in which a set is iterated.

   Objects are records [cls, field, label, members]: a class, a field name, the label its
   class declares for that field, and a set-valued field.  Process state: a label cache
   (field name -> label), an encoder slot, and the set iteration order `perm` chosen by
   the environment (the hash seed).  Switches select as-coded defect shapes:
     CacheByName   - labels are remembered per FIELD NAME (not per class and name): the
                     second class using the same field name gets the first one's label
     UnsortedSets  - a set is rendered in iteration order instead of a sorted order
     PinEncoder    - rendering a class for the first time stores the text encoder then installed on that class
                     (getattr instead of vars(cls).get when saving it), so a later change of the installed
                     encoder is ignored for that class
   With all FALSE (the intended design) TLC proves Deterministic; with any TRUE it
   produces a history / an environment in which two serialisations of one object differ. *)
EXTENDS Naturals, Sequences, FiniteSets, TLC

CONSTANTS Objects, Perms, CacheByName, UnsortedSets, PinEncoder, MaxSteps

VARIABLES cache, perm, out, steps,
          enc,       \* the text encoder the application has installed ("default" or "app")
          pinned     \* class -> encoder stored on the class itself ("none" = inherits the installed one)
vars == <<cache, perm, out, steps, enc, pinned>>
Encoders == {"default", "app"}
Classes == {o.cls : o \in Objects}

Names == {o.field : o \in Objects}
NoLabel == "?"

\* a set rendered as a sequence: sorted (canonical) or in the environment's iteration order
Sorted(S) == CHOOSE s \in [1..Cardinality(S) -> S] : \A i, j \in 1..Cardinality(S) : i < j => s[i] < s[j]
InOrder(S, p) == LET idx == {i \in 1..Len(p) : p[i] \in S}
                     RECURSIVE F(_)
                     F(k) == IF k > Len(p) THEN <<>> ELSE (IF p[k] \in S THEN <<p[k]>> ELSE <<>>) \o F(k + 1)
                 IN F(1)
EffEnc(o) == IF PinEncoder /\ pinned[o.cls] # "none" THEN pinned[o.cls] ELSE enc
Render(o, c, p) == <<o.cls, EffEnc(o),
                     IF CacheByName /\ c[o.field] # NoLabel THEN c[o.field] ELSE o.label,
                     IF UnsortedSets THEN InOrder(o.members, p) ELSE Sorted(o.members)>>

Init == /\ cache = [n \in Names |-> NoLabel]
        /\ perm \in Perms
        /\ out = [o \in Objects |-> <<>>]
        /\ steps = 0
        /\ enc = "default" /\ pinned = [c \in Classes |-> "none"]

Serialise(o) == /\ steps < MaxSteps
                /\ out' = [out EXCEPT ![o] = <<Render(o, cache, perm), enc>>]
                /\ pinned' = IF PinEncoder /\ pinned[o.cls] = "none" THEN [pinned EXCEPT ![o.cls] = enc] ELSE pinned
                /\ cache' = IF CacheByName /\ cache[o.field] = NoLabel THEN [cache EXCEPT ![o.field] = o.label] ELSE cache
                /\ steps' = steps + 1 /\ UNCHANGED <<perm, enc>>
\* a new process: other hash seed, empty caches; results of the old process are kept for comparison
Restart == /\ steps < MaxSteps /\ perm' \in Perms /\ cache' = [n \in Names |-> NoLabel] /\ steps' = steps + 1
           /\ enc' = "default" /\ pinned' = [c \in Classes |-> "none"] /\ UNCHANGED out
\* the application installs another text encoder (Serializable.post_text_encoder = ...)
Install(e) == /\ steps < MaxSteps /\ enc # e /\ enc' = e /\ steps' = steps + 1 /\ UNCHANGED <<cache, perm, out, pinned>>

Next == (\E o \in Objects : Serialise(o)) \/ Restart \/ (\E e \in Encoders : Install(e))
Spec == Init /\ [][Next]_vars

\* whenever an object is serialised, the result is THE rendering of that object
\* ... under the encoder installed at that moment
Canonical(o, e) == <<o.cls, e, o.label, Sorted(o.members)>>
Deterministic == \A o \in Objects : out[o] = <<>> \/ out[o][1] = Canonical(o, out[o][2])
=============================================================================
