------------------------------- MODULE SshWire -------------------------------
(* C07 / C16 - SSH encodings written from RFC 4251 (data types: string, name-list, mpint),
   RFC 4253 (identification string 4.2, binary packet 6, KEXINIT 7.1, key formats 6.6,
   DH messages 8, disconnect 11.1), RFC 4419 (group exchange), RFC 5656 3.1 (ECDSA keys),
   RFC 8709 (Ed25519), OpenSSH PROTOCOL.certkeys (certificates) and the HASSH definition (salesforce/hassh).
   Integers that can exceed 31 bits cross as digit strings (see Prim). *)
EXTENDS Prim

RECURSIVE FlattenS(_)
FlattenS(ss) == IF ss = <<>> THEN <<>> ELSE Head(ss) \o FlattenS(Tail(ss))
RECURSIVE JoinB(_, _)
JoinB(parts, sep) == IF parts = <<>> THEN <<>> ELSE IF Len(parts) = 1 THEN parts[1] ELSE parts[1] \o <<sep>> \o JoinB(Tail(parts), sep)

Str(b)          == U32(Len(b)) \o b                       \* string: uint32 length + bytes
NameList(names) == Str(JoinB(names, 44))                  \* comma separated, RFC 4251 5
U32D(d)         == EncBE(d, 4)                            \* uint32 given as digits
Mp(d)           == SshMpint(FALSE, d)

\* RFC 4253 6: padding so that the total length is a multiple of 8 (cipher block size < 8 -> 8), at least 4 bytes
PadLen(n) == LET p == 8 - ((n + 5) % 8) IN IF p < 4 THEN p + 8 ELSE p
PacketLength(n) == 1 + n + PadLen(n)
PacketTotal(n)  == 4 + PacketLength(n)
PacketHead(payload) == U32(PacketLength(Len(payload))) \o <<PadLen(Len(payload))>> \o payload   \* padding bytes are arbitrary

KexInit(m) == <<20>> \o m.cookie
              \o NameList(m.kex) \o NameList(m.host_key) \o NameList(m.enc_c2s) \o NameList(m.enc_s2c)
              \o NameList(m.mac_c2s) \o NameList(m.mac_s2c) \o NameList(m.comp_c2s) \o NameList(m.comp_s2c)
              \o NameList(m.lang_c2s) \o NameList(m.lang_s2c) \o <<IF m.first_kex_packet_follows THEN 1 ELSE 0>> \o U32D(m.reserved)
DhInit(m)       == <<m.code>> \o Str(m.e)                                  \* 30 KEXDH_INIT / 32 KEX_DH_GEX_INIT
DhReply(m)      == <<m.code>> \o Str(m.key_blob) \o Str(m.f) \o Str(m.signature)
GexRequest(m)   == <<34>> \o U32D(m.min) \o U32D(m.n) \o U32D(m.max)
GexGroup(m)     == <<31>> \o Str(m.p) \o Str(m.g)
Disconnect(m)   == <<1>> \o U32D(m.reason) \o Str(m.description) \o Str(m.language)
NewKeys(m)      == <<21>>
Unimplemented(m) == <<3>> \o U32D(m.seq)

\* key parameters without the algorithm name (shared by plain keys and certificates)
KeyParams(kind, m) ==
  CASE kind = "rsa_key"   -> Mp(m.e) \o Mp(m.n)                              \* "ssh-rsa": e then n
    [] kind = "dss_key"   -> Mp(m.p) \o Mp(m.q) \o Mp(m.g) \o Mp(m.y)
    [] kind = "ecdsa_key" -> Str(m.curve) \o Str(m.point)
    [] kind = "eddsa_key" -> Str(m.key)
RsaKey(m)     == Str(m.alg) \o KeyParams("rsa_key", m)
DssKey(m)     == Str(m.alg) \o KeyParams("dss_key", m)
EcdsaKey(m)   == Str(m.alg) \o KeyParams("ecdsa_key", m)
EddsaKey(m)   == Str(m.alg) \o KeyParams("eddsa_key", m)

\* OpenSSH certificates (PROTOCOL.certkeys).  Options / extensions are tuples (string name, string data); the data of a
\* flag is empty, the data of a string-valued option is ITSELF a buffer holding one string (ssh-keygen add_string_option:
\* put_cstring(b, value); put_cstring(c, name); put_stringb(c, b)), unknown ones are kept as raw data.
U64D(d) == EncBE(d, 8)
Ts64(t) == IF t.forever THEN Ones(8) ELSE U64D(t.secs)
OptData(o) == CASE o.k = "flag" -> <<>> [] o.k = "string" -> Str(o.v) [] OTHER -> o.v
Packed(opts) == FlattenS([i \in 1..Len(opts) |-> Str(opts[i].name) \o Str(OptData(opts[i]))])
Principals(ps) == FlattenS([i \in 1..Len(ps) |-> Str(ps[i])])
CertSignature(m) == Str(Str(m.sig_type) \o Str(m.sig_data))
CertV01(m) == Str(m.alg) \o Str(m.nonce) \o KeyParams(m.key_kind, m.key) \o U64D(m.serial) \o U32D(m.type) \o Str(m.key_id)
              \o Str(Principals(m.principals)) \o Ts64(m.after) \o Ts64(m.before) \o Str(Packed(m.options))
              \o Str(Packed(m.extensions)) \o Str(m.reserved) \o Str(m.sigkey) \o CertSignature(m)
\* the legacy -v00 format: no serial, constraints instead of options/extensions, nonce near the end
CertV00(m) == Str(m.alg) \o KeyParams(m.key_kind, m.key) \o U32D(m.type) \o Str(m.key_id)
              \o Str(Principals(m.principals)) \o Ts64(m.after) \o Ts64(m.before) \o Str(Packed(m.options))
              \o Str(m.nonce) \o Str(m.reserved) \o Str(m.sigkey) \o CertSignature(m)

\* identification string: "SSH-" protoversion "-" softwareversion [SP comments] CR LF
Banner(m) == <<83, 83, 72, 45>> \o m.proto \o <<45>> \o m.software \o (IF m.has_comment THEN <<32>> \o m.comment ELSE <<>>) \o <<13, 10>>

SshEnc(kind, m) ==
  CASE kind = "kexinit"     -> KexInit(m)
    [] kind = "dh_init"     -> DhInit(m)
    [] kind = "dh_reply"    -> DhReply(m)
    [] kind = "gex_request" -> GexRequest(m)
    [] kind = "gex_group"   -> GexGroup(m)
    [] kind = "disconnect"  -> Disconnect(m)
    [] kind = "newkeys"     -> NewKeys(m)
    [] kind = "unimplemented" -> Unimplemented(m)
    [] kind = "rsa_key"     -> RsaKey(m)
    [] kind = "dss_key"     -> DssKey(m)
    [] kind = "ecdsa_key"   -> EcdsaKey(m)
    [] kind = "eddsa_key"   -> EddsaKey(m)
    [] kind = "banner"      -> Banner(m)
    [] kind = "cert_v01"    -> CertV01(m)
    [] kind = "cert_v00"    -> CertV00(m)

\* values the RFCs allow (the parse-back clause is claimed for these only; the layout clause for every value)
SSH_RSA == <<115, 115, 104, 45, 114, 115, 97>>
SSH_DSS == <<115, 115, 104, 45, 100, 115, 115>>
SSH_ED25519 == <<115, 115, 104, 45, 101, 100, 50, 53, 53, 49, 57>>
ECDSA_NAMES == {<<101, 99, 100, 115, 97, 45, 115, 104, 97, 50, 45, 110, 105, 115, 116, 112, 50, 53, 54>>, <<101, 99, 100, 115, 97, 45, 115, 104, 97, 50, 45, 110, 105, 115, 116, 112, 51, 56, 52>>, <<101, 99, 100, 115, 97, 45, 115, 104, 97, 50, 45, 110, 105, 115, 116, 112, 53, 50, 49>>}
KeyConformant(kind, m) ==
  CASE kind = "rsa_key"   -> m.alg = SSH_RSA
    [] kind = "dss_key"   -> m.alg = SSH_DSS
    [] kind = "eddsa_key" -> m.alg = SSH_ED25519 /\ Len(m.key) = 32
    [] kind = "ecdsa_key" -> m.alg \in ECDSA_NAMES
    [] OTHER -> TRUE
Conformant(kind, m) ==
  CASE kind = "kexinit"   -> Len(m.cookie) = 16
    [] kind = "dh_reply"  -> KeyConformant(m.key_kind, m.key)             \* the host key inside is one the RFCs define
    [] kind \in {"cert_v01", "cert_v00"} -> m.alg_matches_key /\ Len(m.serial) <= 8 /\ KeyConformant(m.sigkey_kind, m.sigkey_abs)
    [] kind = "banner"    -> 4 + Len(m.proto) + 1 + Len(m.software) + (IF m.has_comment THEN 1 + Len(m.comment) ELSE 0) + 2 <= 255
                             /\ (\A i \in 1..Len(m.comment) : m.comment[i] \notin {10, 13})
                             /\ (\A i \in 1..Len(m.software) : m.software[i] \notin {10, 13, 32, 45})
    [] kind = "rsa_key"   -> m.alg = SSH_RSA
    [] kind = "dss_key"   -> m.alg = SSH_DSS
    [] kind = "eddsa_key" -> m.alg = SSH_ED25519 /\ Len(m.key) = 32
    [] kind = "ecdsa_key" -> m.alg \in ECDSA_NAMES
    [] OTHER -> TRUE

-----------------------------------------------------------------------------
(* HASSH: the name-lists AS THEY APPEAR ON THE WIRE.  b is a KEXINIT payload: code(1) cookie(16) then ten strings. *)
U32At(b, i) == ((b[i] * 256 + b[i + 1]) * 256 + b[i + 2]) * 256 + b[i + 3]
RECURSIVE StrOffsets(_, _, _)
StrOffsets(b, i, k) == IF k = 0 THEN <<>> ELSE <<<<i + 4, U32At(b, i)>>>> \o StrOffsets(b, i + 4 + U32At(b, i), k - 1)
ListBytes(b, k) == LET o == StrOffsets(b, 18, 10)[k] IN SubSeq(b, o[1], o[1] + o[2] - 1)
HasshClientPreimage(b) == ListBytes(b, 1) \o <<59>> \o ListBytes(b, 3) \o <<59>> \o ListBytes(b, 5) \o <<59>> \o ListBytes(b, 7)
HasshServerPreimage(b) == ListBytes(b, 1) \o <<59>> \o ListBytes(b, 4) \o <<59>> \o ListBytes(b, 6) \o <<59>> \o ListBytes(b, 8)
=============================================================================
