---------------------------- MODULE StartTlsWire ----------------------------
(* C09 - opportunistic-TLS application messages, written from their protocol documents:
   MySQL client/server protocol (packet: 3-byte little-endian length + sequence id; Protocol::HandshakeV10;
   Protocol::SSLRequest, 4.1 and pre-4.1 forms), RFC 1006 TPKT, ITU-T X.224 13.3/13.4 connection request/confirm,
   MS-RDPBCGR 2.2.1.1.1 / 2.2.1.2.1 RDP_NEG_REQ / RDP_NEG_RSP, the OpenVPN control channel packet format
   (opcode<<3|key_id, session id, ack array, remote session id when acks are present, packet id) and its TCP
   length prefix, the PostgreSQL SSLRequest, and the LDAP StartTLS extended request/response (RFC 4511 4.12/4.14, DER).
   Integers that can exceed 31 bits cross as digit strings (see Prim). *)
EXTENDS Prim

RECURSIVE FlattenW(_)
FlattenW(ss) == IF ss = <<>> THEN <<>> ELSE Head(ss) \o FlattenW(Tail(ss))
LE(d, w) == EncLE(d, w)
BEd(d, w) == EncBE(d, w)
Nul(s) == s \o <<0>>

MySQLRecord(m) == LE(m.length, 3) \o <<m.sequence>> \o m.payload                      \* payload_length counts the payload only

\* Protocol::HandshakeV10: capability flags split into lower and upper two bytes; auth-plugin-data part 2 and name
\* only with CLIENT_PLUGIN_AUTH; length of auth-plugin-data = 8 + Len(part 2)
MySQLHandshakeV10(m) ==
     <<m.protocol_version>> \o Nul(m.server_version) \o LE(m.connection_id, 4) \o m.auth_plugin_data \o <<0>>
  \o LE(m.capabilities_low, 2) \o <<m.character_set>> \o LE(m.status, 2) \o LE(m.capabilities_high, 2)
  \o (IF m.plugin_auth THEN <<8 + Len(m.auth_plugin_data_2)>> ELSE <<0>>)
  \o Zeros(10)
  \o m.auth_plugin_data_2
  \o (IF m.plugin_auth THEN Nul(m.auth_plugin_name) ELSE <<>>)
\* Protocol::SSLRequest: 4-byte capabilities, max packet size, character set, 23 reserved zeros (4.1);  2 + 3 bytes before
MySQLSslRequest(m) == IF m.protocol_41
                      THEN LE(m.capabilities, 4) \o LE(m.max_packet_size, 4) \o <<m.character_set>> \o Zeros(23)
                      ELSE LE(m.capabilities, 2) \o LE(m.max_packet_size, 3)

Tpkt(m) == <<m.version, 0>> \o BEd(m.total_length, 2) \o m.payload                    \* RFC 1006: vrsn (always 3), reserved, length covers the header
Cotp(m) == <<6 + Len(m.user_data)>> \o <<m.code>> \o BEd(m.dst_ref, 2) \o BEd(m.src_ref, 2) \o <<m.class_option>> \o m.user_data
RdpNeg(m) == <<m.type>> \o <<m.flags>> \o LE(<<8>>, 2) \o LE(m.protocols, 4)           \* type, flags, length = 8, protocols (LE)

OpenVpn(m) == <<m.opcode * 8 + m.key_id>> \o BEd(m.session_id, 8) \o <<Len(m.acks)>>
              \o FlattenW([i \in 1..Len(m.acks) |-> BEd(m.acks[i], 4)])
              \o (IF m.acks # <<>> THEN BEd(m.remote_session_id, 8) ELSE <<>>)
              \o (IF m.has_packet_id THEN BEd(m.packet_id, 4) ELSE <<>>) \o m.payload
OpenVpnTcp(m) == BEd(m.length, 2) \o m.payload

PgSslRequest(m) == <<0, 0, 0, 8, 4, 210, 22, 47>>                                    \* length 8, code 80877103 = 0x04d2162f
PgSync(m) == <<83>>                                                                   \* 'S'

\* DER (X.690): definite lengths in the shortest form
DerLen(n) == IF n < 128 THEN <<n>> ELSE IF n < 256 THEN <<129, n>> ELSE <<130, n \div 256, n % 256>>
Tlv(tag, body) == <<tag>> \o DerLen(Len(body)) \o body
StartTlsOid == <<49, 46, 51, 46, 54, 46, 49, 46, 52, 46, 49, 46, 49, 52, 54, 54, 46, 50, 48, 48, 51, 55>>   \* "1.3.6.1.4.1.1466.20037"
\* BER (X.690 8.1.3.5; RFC 4511 5.1 allows every definite form): the length in the long form with k length octets
RECURSIVE BeN(_, _)
BeN(n, k) == IF k = 0 THEN <<>> ELSE BeN(n \div 256, k - 1) \o <<n % 256>>
TlvLong(tag, body, k) == <<tag, 128 + k>> \o BeN(Len(body), k) \o body
\* the same two messages with the length of the outer SEQUENCE, or of the operation, written in the long form
LdapAlt(kind, m, where, k) ==
   LET idp == Tlv(2, <<m.message_id>>)
       op  == IF kind = "ldap_request" THEN Tlv(128, StartTlsOid) ELSE Tlv(10, <<m.result_code>>) \o Tlv(4, <<>>) \o Tlv(4, <<>>)
       tag == IF kind = "ldap_request" THEN 119 ELSE 120
       \* RFC 4511 4.1.9 / 4.1.10: LDAPResult may carry referral [3] IMPLICIT SEQUENCE OF LDAPURL (tag 0xA3) - here k URIs "ldap://h"
       uri == Tlv(4, <<108, 100, 97, 112, 58, 47, 47, 104>>)
       uris == IF k = 1 THEN uri ELSE uri \o uri
   IN  IF where = "outer" THEN TlvLong(48, idp \o Tlv(tag, op), k)
       ELSE IF where = "referral" THEN Tlv(48, idp \o Tlv(tag, op \o Tlv(163, uris)))
       ELSE Tlv(48, idp \o TlvLong(tag, op, k))
LdapStartTlsRequest(m)  == Tlv(48, Tlv(2, <<m.message_id>>) \o Tlv(119, Tlv(128, StartTlsOid)))
LdapStartTlsResponse(m) == Tlv(48, Tlv(2, <<m.message_id>>) \o Tlv(120, Tlv(10, <<m.result_code>>) \o Tlv(4, <<>>) \o Tlv(4, <<>>)))

StEnc(kind, m) ==
  CASE kind = "mysql_record"       -> MySQLRecord(m)
    [] kind = "mysql_handshake"    -> MySQLHandshakeV10(m)
    [] kind = "mysql_ssl_request"  -> MySQLSslRequest(m)
    [] kind = "tpkt"               -> Tpkt(m)
    [] kind = "cotp"               -> Cotp(m)
    [] kind = "rdp_neg"            -> RdpNeg(m)
    [] kind = "openvpn"            -> OpenVpn(m)
    [] kind = "openvpn_tcp"        -> OpenVpnTcp(m)
    [] kind = "pg_ssl_request"     -> PgSslRequest(m)
    [] kind = "pg_sync"            -> PgSync(m)
    [] kind = "ldap_request"       -> LdapStartTlsRequest(m)
    [] kind = "ldap_response"      -> LdapStartTlsResponse(m)

\* value constraints of the protocol documents (the parse-back clause is claimed for these; the layout clause always)
StConformant(kind, m) ==
  CASE kind = "tpkt"            -> m.version = 3
    \* the remote session id exists on the wire exactly when packets are acknowledged
    [] kind = "openvpn"         -> m.has_remote = (m.acks # <<>>)
    [] kind = "mysql_handshake" -> Len(m.auth_plugin_data) = 8 /\ (~m.plugin_auth \/ Len(m.auth_plugin_data_2) >= 13) /\ (m.plugin_auth \/ m.auth_plugin_data_2 = <<>>)
                                   /\ (\A i \in 1..Len(m.server_version) : m.server_version[i] # 0) /\ (\A i \in 1..Len(m.auth_plugin_name) : m.auth_plugin_name[i] # 0)
    [] kind = "cotp"            -> m.class_option = 0
    [] OTHER -> TRUE
\* X.224 13.3.1: octets 3-4 DST-REF, 5-6 SRC-REF.  The same PDU with the two references exchanged:
CotpSwapped(m) == Cotp([m EXCEPT !.dst_ref = m.src_ref, !.src_ref = m.dst_ref])

\* the message type that is ON THE WIRE (first discriminating octets), used for the type-faithfulness clause
WireType(kind, b) ==
  CASE kind = "cotp"    -> IF b[2] \div 16 = 14 THEN "request" ELSE IF b[2] \div 16 = 13 THEN "confirm" ELSE "other"
    [] kind = "rdp_neg" -> IF b[1] = 1 THEN "request" ELSE IF b[1] = 2 THEN "response" ELSE "other"
    [] kind = "ldap_request"  -> "request"
    [] kind = "ldap_response" -> "response"
    [] OTHER -> "-"
=============================================================================
