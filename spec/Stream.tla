------------------------------- MODULE Stream -------------------------------
(* C04 - incremental reads guided by the missing-byte count reassemble the stream.

   A peer writes a sequence of frames (records / packets / handshake messages) to a
   byte stream.  The channel delivers the bytes in arbitrary chunks.  The reader keeps
   a buffer; it calls the parser on the buffer; on "ok(n)" it removes n bytes and has one
   more frame; on "not enough data (need)" it waits until `need` MORE bytes have been
   buffered before it tries again.  In lock-step mode (request/response protocols) the
   peer writes frame i+1 only after the reader has accepted frame i - this is the
   situation in which a parser that asks for more bytes than the frame has deadlocks
   the connection.

   The parser is abstract: Parse(L, h, b) is the set of outcomes the parser may give
   when the frame in progress has total length L, header length h and b bytes of it are
   buffered.  ParserMode selects
     "contract"     any outcome the property allows: ok(L) iff b >= L, otherwise
                    need \in 1..(L - b)   (TLC explores every choice)
     "typical"      the header-then-body shape of the implementation
     "overask"      a parser that asks for one byte too many once the header is in
     "prefixaccept" a parser that accepts a frame one byte short
   the last two are specification-level mutants and must be rejected. *)
EXTENDS Naturals, Sequences, FiniteSets

CONSTANTS Frames,       \* sequence of records [h |-> header bytes, len |-> total bytes]
          MaxChunk,     \* largest delivery chunk
          LockStep,     \* BOOLEAN
          ParserMode

VARIABLES sent,         \* bytes written by the peer so far
          nsent,        \* frames written by the peer so far
          dlv,          \* bytes delivered to the reader so far
          cons,         \* bytes the reader has consumed (removed from its buffer)
          got,          \* frames the reader has accepted
          want          \* reader retries when dlv - cons >= want
vars == <<sent, nsent, dlv, cons, got, want>>

N == Len(Frames)
RECURSIVE StartOf(_)
StartOf(i) == IF i = 1 THEN 0 ELSE StartOf(i - 1) + Frames[i - 1].len      \* stream offset of frame i
EndOf(i) == StartOf(i) + Frames[i].len
Total == IF N = 0 THEN 0 ELSE EndOf(N)

Buffered == dlv - cons

OK(n)   == [k |-> "ok", n |-> n]
NED(d)  == [k |-> "need", n |-> d]

Parse(L, h, b) ==
  CASE ParserMode = "contract" ->
         IF b >= L THEN {OK(L)} ELSE {NED(d) : d \in 1..(L - b)}
    [] ParserMode = "typical" ->
         IF b >= L THEN {OK(L)} ELSE IF b < h THEN {NED(h - b)} ELSE {NED(L - b)}
    [] ParserMode = "overask" ->
         IF b >= L THEN {OK(L)} ELSE IF b < h THEN {NED(h - b)} ELSE {NED(L - b + 1)}
    [] ParserMode = "prefixaccept" ->
         IF b >= L - 1 /\ b >= h THEN {OK(IF b >= L THEN L ELSE L - 1)} ELSE IF b < h THEN {NED(h - b)} ELSE {NED(L - b)}

Init == sent = 0 /\ nsent = 0 /\ dlv = 0 /\ cons = 0 /\ got = 0 /\ want = 1

PeerWrite == /\ nsent < N
             /\ (LockStep => nsent = got)
             /\ nsent' = nsent + 1 /\ sent' = sent + Frames[nsent + 1].len
             /\ UNCHANGED <<dlv, cons, got, want>>

Deliver == \E k \in 1..MaxChunk :
             /\ dlv + k <= sent
             /\ dlv' = dlv + k
             /\ UNCHANGED <<sent, nsent, cons, got, want>>

ReaderTry == /\ got < N
             /\ Buffered >= want
             /\ \E r \in Parse(Frames[got + 1].len, Frames[got + 1].h,
                               \* bytes of the frame in progress that are buffered (later frames may follow)
                               IF Buffered > Frames[got + 1].len THEN Frames[got + 1].len ELSE Buffered) :
                  IF r.k = "ok"
                  THEN cons' = cons + r.n /\ got' = got + 1 /\ want' = 1
                  ELSE want' = Buffered + r.n /\ UNCHANGED <<cons, got>>
             /\ UNCHANGED <<sent, nsent, dlv>>

Next == PeerWrite \/ Deliver \/ ReaderTry
Spec == Init /\ [][Next]_vars /\ WF_vars(PeerWrite) /\ WF_vars(Deliver) /\ WF_vars(ReaderTry)

-----------------------------------------------------------------------------
TypeOK == /\ sent \in 0..Total /\ dlv \in 0..sent /\ cons \in 0..dlv /\ got \in 0..N /\ nsent \in 0..N
\* the reader never waits for bytes beyond the end of the frame in progress
NoOverAsk == got < N => cons + want <= EndOf(got + 1)
\* consumed bytes are exactly whole frames, in order
FramesIntact == cons = (IF got = 0 THEN 0 ELSE EndOf(got))
NoPrefixAccept == [][got' = got + 1 => cons' - cons = Frames[got + 1].len]_vars
InOrder == [][got' \in {got, got + 1}]_vars
\* whatever the fragmentation, every frame is eventually accepted
Progress == <>(got = N /\ cons = Total)
=============================================================================
