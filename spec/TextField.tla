------------------------------ MODULE TextField ------------------------------
(* C18 - insignificant spelling of text fields never changes what is parsed.

   A field value is a sequence of DIRECTIVES [name, hasval, val]; a SPELLING of it decorates every
   directive (letter case of the name, whitespace before / after, whitespace around the "=" , optional
   quoting of the value) and the list (order, an empty element, a trailing separator, an extra unknown
   directive).  Render turns a spelling into bytes; Meaning is the RFC-level reader on spellings: the
   multiset of (lower-case name, value) pairs in the ORIGINAL order - it ignores exactly the decorations.
   Every respelling action changes decorations only, so Meaning is invariant (checked by TLC on a bounded
   instance in MC_TextField); which actions a field type permits is the table Allowed, each entry with the
   grammar that makes the variation insignificant:

     name-case   names of directives / fields / attributes are case-insensitive
                 RFC 6797 6.1 (STS), RFC 9163 2.1 (Expect-CT), RFC 7469 2.1 (HPKP), RFC 9111 5.2 (Cache-Control),
                 RFC 6265 5.2 (cookie attributes), RFC 9110 8.3.1 (parameter names), CSP3 2.3.1 (directive names),
                 RFC 7208 4.6.1/12 (SPF mechanism names), RFC 9110 5.1 (field names)
     ows         optional whitespace around the list separator: RFC 9110 5.6.1.1 / 5.6.3 (#rule, OWS), RFC 6797 6.1,
                 RFC 7489 6.4 (dmarc-sep = *WSP ";" *WSP), RFC 8461 3.1, RFC 8460 3, RFC 7208 4.6.1 (1*SP between terms)
     eq-ws       whitespace around "=": RFC 7489 6.4 only: WSP is allowed on both sides of "="; RFC 6265 5.2 (attribute-value is trimmed)
     empty       empty list elements: RFC 9110 5.6.1.2 (recipients MUST accept), RFC 6797 6.1 ([ directive ] *( ";" [ directive ] )),
                 RFC 6265 5.2 (an empty cookie-av has an unrecognised, empty name and is ignored),
                 trailing separator for the DNS TXT policy records (RFC 7489 6.4 [dmarc-sep], RFC 8461 3.1, RFC 8460 3)
     order       directives mapped to named attributes may come in any order: RFC 6797 6.1 (1), RFC 7469 2.1, RFC 9111 5.2,
                 RFC 6265 5.2, RFC 7489 6.3 (after v and p), RFC 8461 3.1 / RFC 8460 3 (after v)
     quote       a token value may be given as quoted-string: RFC 6797 6.1 (4), RFC 9110 5.6.6 (parameters), RFC 9111 5.2
     unknown     unknown directives are ignored: RFC 6797 6.1 (5), RFC 7469 2.1, RFC 9111 5.2.3, RFC 6265 5.2, RFC 7489 6.3,
                 RFC 8461 3.1, RFC 8460 3 (extension fields)                                                              *)
EXTENDS Integers, Sequences, FiniteSets

RECURSIVE Flat(_)
Flat(ss) == IF ss = <<>> THEN <<>> ELSE Head(ss) \o Flat(Tail(ss))
Upper(c) == IF c >= 97 /\ c <= 122 THEN c - 32 ELSE c
Lower(c) == IF c >= 65 /\ c <= 90 THEN c + 32 ELSE c
UpperS(s) == [i \in 1..Len(s) |-> Upper(s[i])]
LowerS(s) == [i \in 1..Len(s) |-> Lower(s[i])]
SwapFirst(s) == IF s = <<>> THEN s ELSE <<(IF Upper(s[1]) = s[1] THEN Lower(s[1]) ELSE Upper(s[1]))>> \o Tail(s)
Cased(s, c) == CASE c = 0 -> s [] c = 1 -> UpperS(s) [] c = 2 -> LowerS(s) [] c = 3 -> SwapFirst(s)

SP == <<32>>
TAB == <<9>>

\* a decorated directive
Dir(d) == d.pre \o Cased(d.name, d.case)
          \o (IF d.hasval THEN d.eqpre \o <<d.eq>> \o d.eqpost \o (IF d.quote THEN <<34>> \o d.val \o <<34>> ELSE d.val) ELSE <<>>)
          \o d.post
\* the list: separator, its canonical trailing space, an optional doubled separator, an optional trailing separator
RECURSIVE JoinDirs(_, _, _, _)
JoinDirs(ds, sepb, gap, dbl) ==
   IF ds = <<>> THEN <<>>
   ELSE IF Len(ds) = 1 THEN Dir(ds[1])
   ELSE Dir(ds[1]) \o sepb \o (IF dbl = 1 THEN gap \o sepb ELSE <<>>) \o gap \o JoinDirs(Tail(ds), sepb, gap, dbl - 1)
\* head / tail: fixed text around the list (the braces of a JSON object, the blank line that ends a header block)
Render(s) == s.head \o JoinDirs(s.dirs, s.sep, s.gap, s.dbl) \o (IF s.trail THEN s.sep ELSE <<>>) \o s.tail

\* the RFC-level reader: names compared case-insensitively, decorations ignored, unknown directives dropped
Meaning(s) == LET known == SelectSeq(s.dirs, LAMBDA d : ~d.unknown)
              IN  [i \in 1..Len(known) |-> <<LowerS(known[i].name), known[i].hasval, known[i].val>>]
SameUpToOrder(a, b) == Len(a) = Len(b) /\ \A x \in {a[i] : i \in 1..Len(a)} :
                          Cardinality({i \in 1..Len(a) : a[i] = x}) = Cardinality({i \in 1..Len(b) : b[i] = x})

-----------------------------------------------------------------------------
(* respelling actions: each yields the set of spellings one step away *)
SetDir(s, i, d) == [s EXCEPT !.dirs = [s.dirs EXCEPT ![i] = d]]
Idx(s) == 1..Len(s.dirs)

L(lab, S) == {[lab |-> lab, s |-> t] : t \in S}
After(s) == {j \in Idx(s) : j > s.caseskip}
ActCase(s)  == L("name-case:upper", {SetDir(s, i, [s.dirs[i] EXCEPT !.case = 1]) : i \in After(s)})
          \cup L("name-case:lower", {SetDir(s, i, [s.dirs[i] EXCEPT !.case = 2]) : i \in After(s)})
          \cup L("name-case:first-letter", {SetDir(s, i, [s.dirs[i] EXCEPT !.case = 3]) : i \in After(s)})
Inner(s) == {j \in Idx(s) : j > 1}
NotLast(s) == {j \in Idx(s) : j < Len(s.dirs)}
ActOws(s)   == L("ows:before-sp", {SetDir(s, i, [s.dirs[i] EXCEPT !.pre = SP]) : i \in Inner(s)})
          \cup L("ows:before-tab", {SetDir(s, i, [s.dirs[i] EXCEPT !.pre = TAB]) : i \in Inner(s)})
          \cup L("ows:before-2sp", {SetDir(s, i, [s.dirs[i] EXCEPT !.pre = SP \o SP]) : i \in Inner(s)})
          \cup L("ows:after-sp", {SetDir(s, i, [s.dirs[i] EXCEPT !.post = SP]) : i \in NotLast(s)})
          \cup L("ows:after-tab", {SetDir(s, i, [s.dirs[i] EXCEPT !.post = TAB]) : i \in NotLast(s)})
          \cup L("ows:after-2sp", {SetDir(s, i, [s.dirs[i] EXCEPT !.post = SP \o SP]) : i \in NotLast(s)})
          \cup L("ows:after-tab-sp", {SetDir(s, i, [s.dirs[i] EXCEPT !.post = TAB \o SP]) : i \in NotLast(s)})
          \cup L("ows:no-gap", {[s EXCEPT !.gap = <<>>]})
ActEdge(s)  == L("edge-ws:leading", {SetDir(s, 1, [s.dirs[1] EXCEPT !.pre = SP])}) \cup L("edge-ws:trailing", {[s EXCEPT !.tail = SP]})
              \cup L("edge-ws:trailing-2sp", {[s EXCEPT !.tail = SP \o SP]})
WithVal(s) == {j \in Idx(s) : s.dirs[j].hasval /\ j > s.caseskip}
ActEqWs(s)  == L("eq-ws:before", {SetDir(s, i, [s.dirs[i] EXCEPT !.eqpre = SP]) : i \in WithVal(s)})
          \cup L("eq-ws:after", {SetDir(s, i, [s.dirs[i] EXCEPT !.eqpost = SP]) : i \in WithVal(s)})
ActEmpty(s) == L("empty:doubled-separator", {[s EXCEPT !.dbl = k] : k \in 1..(Len(s.dirs) - 1)}) \cup L("empty:trailing-separator", {[s EXCEPT !.trail = TRUE]})
ActTrail(s) == L("trail:trailing-separator", {[s EXCEPT !.trail = TRUE]})
SwapAt(ds, i, j) == [k \in 1..Len(ds) |-> IF k = i THEN ds[j] ELSE IF k = j THEN ds[i] ELSE ds[k]]
Movable(s) == {k \in Idx(s) : k >= s.fixed + 1}
ActOrder(s) == L("order", {[s EXCEPT !.dirs = SwapAt(s.dirs, i, j)] : i \in Movable(s), j \in Movable(s)} \ {s})
ActQuote(s) == L("quote", {SetDir(s, i, [s.dirs[i] EXCEPT !.quote = ~s.dirs[i].quote]) : i \in {j \in Idx(s) : s.dirs[j].hasval /\ s.dirs[j].quotable}})
Unknown1 == [name |-> <<120, 45, 118, 101, 114, 105, 102>>, hasval |-> FALSE, val |-> <<>>, case |-> 0, pre |-> <<>>, post |-> <<>>,
             eqpre |-> <<>>, eqpost |-> <<>>, quote |-> FALSE, quotable |-> FALSE, unknown |-> TRUE, eq |-> 61]     \* "x-verif"
Unknown2 == [Unknown1 EXCEPT !.hasval = TRUE, !.val = <<49>>]                                                        \* "x-verif=1"
\* JSON member names are strings: the unknown member is "x-verif": 1 there
UName(s, u) == IF s.qnames THEN [u EXCEPT !.name = <<34>> \o u.name \o <<34>>, !.eqpost = s.dirs[1].eqpost] ELSE u
ActUnknown(s) == (IF s.bareunknown THEN L("unknown:flag", {[s EXCEPT !.dirs = Append(s.dirs, [Unknown1 EXCEPT !.eq = s.dirs[1].eq])]}) ELSE {})
            \cup L("unknown:valued", {[s EXCEPT !.dirs = Append(s.dirs, UName(s, [Unknown2 EXCEPT !.eq = s.dirs[1].eq]))]})
            \cup (IF s.qnames THEN L("unknown:first", {[s EXCEPT !.dirs = <<UName(s, [Unknown2 EXCEPT !.eq = s.dirs[1].eq])>> \o s.dirs]}) ELSE {})
\* header block: optional whitespace before and after the field value (RFC 9110 5.5: field-line = field-name ":" OWS field-value OWS)
ActValWs(s) == L("val-ws:no-space-after-colon", {SetDir(s, i, [s.dirs[i] EXCEPT !.eqpost = <<>>]) : i \in Idx(s)})
          \cup L("val-ws:two-spaces-after-colon", {SetDir(s, i, [s.dirs[i] EXCEPT !.eqpost = SP \o SP]) : i \in Idx(s)})
          \cup L("val-ws:tab-after-colon", {SetDir(s, i, [s.dirs[i] EXCEPT !.eqpost = TAB]) : i \in Idx(s)})
          \cup L("val-ws:space-before-crlf", {SetDir(s, i, [s.dirs[i] EXCEPT !.post = SP]) : i \in Idx(s)})
Act(a, s) == CASE a = "val-ws" -> ActValWs(s) [] a = "name-case" -> ActCase(s) [] a = "ows" -> ActOws(s) [] a = "edge-ws" -> ActEdge(s) [] a = "eq-ws" -> ActEqWs(s)
               [] a = "empty" -> ActEmpty(s) [] a = "trail" -> ActTrail(s) [] a = "order" -> ActOrder(s) [] a = "quote" -> ActQuote(s)
               [] a = "unknown" -> ActUnknown(s)

\* which actions the governing RFC declares insignificant for which field type (see the header comment and DESIGN.md Appendix D)
Allowed(type) ==
  CASE type = "sts"           -> {"name-case", "ows", "empty", "order", "quote", "unknown"}
    [] type = "expect_ct"     -> {"name-case", "ows", "empty", "order", "unknown"}
    [] type = "expect_staple" -> {"name-case", "ows", "order"}
    [] type = "hpkp"          -> {"name-case", "ows", "empty", "order", "unknown"}
    [] type = "cache_control" -> {"name-case", "ows", "empty", "order", "unknown"}
    [] type = "set_cookie"    -> {"name-case", "ows", "eq-ws", "empty", "order", "unknown"}   \* empty: RFC 6265 5.2 ignores an empty cookie-av
    [] type = "content_type"  -> {"name-case", "ows", "quote"}
    [] type = "xxss"          -> {"name-case", "ows"}        \* no RFC; the property names the field and the letter case of directive names
    [] type = "csp"           -> {"name-case", "ows", "empty"}
    [] type = "dmarc"         -> {"ows", "eq-ws", "trail", "order", "unknown"}
    [] type = "mta_sts"       -> {"ows", "trail", "order", "unknown"}
    [] type = "tlsrpt"        -> {"ows", "trail", "order", "unknown"}
    [] type = "spf"           -> {"name-case"}
    [] type = "block"         -> {"name-case", "val-ws"}
    \* NEL (a JSON object, RFC 8259 2: insignificant whitespace around the structural characters; 4: members are unordered;
    \* Network Error Logging 3.x: unknown members are ignored)
    [] type = "nel"           -> {"ows", "eq-ws", "order", "unknown"}
    [] OTHER                  -> {}
=============================================================================
