------------------------------- MODULE TlsWire -------------------------------
(* C06 - SSL/TLS structures laid out as the specifications prescribe, written from the RFC
   presentation-language definitions (RFC 5246 4.3 vectors, 6.2.1 records, 7.2 alerts,
   7.4 handshake; RFC 8446 4.1.2-4.2; RFC 6066 3; RFC 7301; RFC 7685; RFC 8449; RFC 7627;
   RFC 5746 3.2; RFC 5077 3.2; RFC 8879; RFC 7507 / 5746 SCSVs; RFC 6066 8 (status request / certificate status);
   RFC 6962 3 (SCT list); NPN draft; SSL 2.0 draft).

   Abstract messages are records whose field names follow the implementation's attribute
   names where one exists; integers are < 2^31; 32-bit times cross as digit strings. *)
EXTENDS Integers, Sequences

RECURSIVE Flatten(_)
Flatten(ss) == IF ss = <<>> THEN <<>> ELSE Head(ss) \o Flatten(Tail(ss))
RECURSIVE ZerosN(_)
ZerosN(n) == IF n <= 0 THEN <<>> ELSE <<0>> \o ZerosN(n - 1)

U8(n)  == <<n % 256>>
U16(n) == <<(n \div 256) % 256, n % 256>>
U24(n) == <<(n \div 65536) % 256, (n \div 256) % 256, n % 256>>
\* variable-length vector <floor..ceiling>: the length prefix has the width needed for the CEILING (RFC 5246 4.3)
Vec1(body) == U8(Len(body)) \o body                 \* ceiling <= 2^8-1
Vec2(body) == U16(Len(body)) \o body                \* ceiling <= 2^16-1
Vec3(body) == U24(Len(body)) \o body                \* ceiling <= 2^24-1
Codes16(cs) == Flatten([i \in 1..Len(cs) |-> U16(cs[i])])
Codes8(cs)  == Flatten([i \in 1..Len(cs) |-> U8(cs[i])])
PadTo(d, w) == ZerosN(w - Len(d)) \o d               \* big-endian digits left padded to w bytes

FALLBACK_SCSV == 22016          \* 0x5600  RFC 7507
RENEG_SCSV    == 255            \* 0x00ff  RFC 5746

-----------------------------------------------------------------------------
Record(m)    == U8(m.content_type) \o U16(m.version) \o Vec2(m.fragment)            \* TLSPlaintext
Alert(m)     == <<m.level, m.description>>
ChangeCipherSpec(m) == <<1>>
Handshake(type, body) == U8(type) \o U24(Len(body)) \o body

Extension(e) == U16(e.type) \o Vec2(e.body)
Extensions(es) == IF es = <<>> THEN <<>>                                            \* omitted when there are none
                  ELSE Vec2(Flatten([i \in 1..Len(es) |-> Extension(es[i])]))
Random(m) == PadTo(m.time, 4) \o m.random                                           \* gmt_unix_time + 28 random bytes

ClientHelloBody(m) ==
     U16(m.version) \o Random(m) \o Vec1(m.session_id)
  \o Vec2(Codes16(m.cipher_suites \o (IF m.fallback_scsv THEN <<FALLBACK_SCSV>> ELSE <<>>)
                                  \o (IF m.empty_renegotiation_info_scsv THEN <<RENEG_SCSV>> ELSE <<>>)))
  \o Vec1(Codes8(m.compression_methods))
  \o Extensions(m.extensions)
ClientHello(m) == Handshake(1, ClientHelloBody(m))

ServerHelloBody(m) == U16(m.version) \o Random(m) \o Vec1(m.session_id) \o U16(m.cipher_suite)
                      \o U8(m.compression_method) \o Extensions(m.extensions)
ServerHello(m) == Handshake(2, ServerHelloBody(m))

Certificate(m) == Handshake(11, Vec3(Flatten([i \in 1..Len(m.certificates) |-> Vec3(m.certificates[i])])))
ServerHelloDone(m) == Handshake(14, <<>>)
\* RFC 5246 7.4.3: the parameters depend on the key exchange; carried as they are
ServerKeyExchange(m) == Handshake(12, m.params)
\* RFC 5246 7.4.4: certificate_types<1..2^8-1>, supported_signature_algorithms<2..2^16-2> (TLS 1.2 only),
\* certificate_authorities<0..2^16-1> of DistinguishedName<1..2^16-1>
CertificateRequest(m) == Handshake(13, Vec1(Codes8(m.types))
                                       \o (IF m.has_sig_algs THEN Vec2(Codes16(m.sig_algs)) ELSE <<>>)
                                       \o Vec2(Flatten([i \in 1..Len(m.authorities) |-> Vec2(m.authorities[i])])))
\* RFC 6066 8: status_type(1) then OCSPResponse<1..2^24-1>
CertificateStatus(m) == Handshake(22, U8(m.status_type) \o Vec3(m.response))
\* RFC 8446 4.1.4: a HelloRetryRequest IS a ServerHello (handshake type 2) whose random is the fixed value below
HRR_RANDOM == <<207, 33, 173, 116, 229, 154, 97, 17, 190, 29, 140, 2, 30, 101, 184, 145,
                194, 162, 17, 22, 122, 187, 140, 94, 7, 158, 9, 226, 200, 168, 51, 156>>
HelloRetryRequest(m) == Handshake(2, U16(m.version) \o m.random \o Vec1(m.session_id) \o U16(m.cipher_suite)
                                     \o U8(m.compression_method) \o Extensions(m.extensions))
ApplicationData(m) == m.data                                                        \* RFC 5246 10: opaque to the record layer

\* extension bodies
ExtServerName(x)     == Vec2(U8(x.name_type) \o Vec2(x.host_name))                   \* RFC 6066 3 (one name)
ExtGroups(x)         == Vec2(Codes16(x.codes))                                       \* RFC 8422 5.1.1 / RFC 7919
ExtPointFormats(x)   == Vec1(Codes8(x.codes))                                        \* RFC 8422 5.1.2
ExtSigAlgs(x)        == Vec2(Codes16(x.codes))                                       \* RFC 5246 7.4.1.4.1
ExtAlpn(x)           == Vec2(Flatten([i \in 1..Len(x.names) |-> Vec1(x.names[i])]))  \* RFC 7301 3.1
ExtVersionsClient(x) == Vec1(Codes16(x.codes))                                       \* RFC 8446 4.2.1
ExtVersionsServer(x) == U16(x.code)
ExtKeyShareClient(x) == Vec2(Flatten([i \in 1..Len(x.entries) |-> U16(x.entries[i].group) \o Vec2(x.entries[i].key)]))
ExtKeyShareServer(x) == U16(x.group) \o Vec2(x.key)
ExtKeyShareHrr(x)    == U16(x.group)
ExtRenegInfo(x)      == Vec1(x.data)                                                 \* RFC 5746 3.2
ExtOpaque(x)         == x.data                                                       \* session ticket (RFC 5077)
ExtPadding(x)        == ZerosN(x.length)                                             \* RFC 7685
ExtEmpty(x)          == <<>>
ExtRecordSizeLimit(x) == U16(x.limit)                                                \* RFC 8449
ExtPskModes(x)       == Vec1(Codes8(x.codes))                                        \* RFC 8446 4.2.9
ExtCompressCert(x)   == Vec1(Codes16(x.codes))                                       \* RFC 8879 3
ExtTokenBinding(x)   == <<x.major, x.minor>> \o Vec1(Codes8(x.codes))                \* RFC 8472 2
\* RFC 6066 8: status_type ocsp(1), ResponderID<1..2^16-1> responder_id_list<0..2^16-1>, Extensions request_extensions<0..2^16-1>
ExtStatusRequest(x)  == U8(1) \o Vec2(Flatten([i \in 1..Len(x.responders) |-> Vec2(x.responders[i])])) \o Vec2(x.request_extensions)
\* NPN draft-agl-tls-nextprotoneg-04 3: the extension data is the bare sequence of 1-byte length prefixed names
ExtNpnServer(x)      == Flatten([i \in 1..Len(x.names) |-> Vec1(x.names[i])])
\* RFC 6962 3.2 / 3.3: SignedCertificateTimestampList<1..2^16-1> of SerializedSCT<1..2^16-1>;
\* SCT v1 = version(1) log_id(32) timestamp(8, ms) extensions<0..2^16-1> hash(1) signature(1) signature<0..2^16-1>
Sct(t) == U8(t.version) \o t.log_id \o PadTo(t.timestamp_ms, 8) \o Vec2(t.extensions) \o U8(t.hash) \o U8(t.sig) \o Vec2(t.signature)
ExtSct(x)            == Vec2(Flatten([i \in 1..Len(x.scts) |-> Vec2(Sct(x.scts[i]))]))

ExtBody(x) ==
  CASE x.k = "server_name"      -> ExtServerName(x)
    [] x.k = "groups"           -> ExtGroups(x)
    [] x.k = "point_formats"    -> ExtPointFormats(x)
    [] x.k = "sig_algs"         -> ExtSigAlgs(x)
    [] x.k = "alpn"             -> ExtAlpn(x)
    [] x.k = "versions_client"  -> ExtVersionsClient(x)
    [] x.k = "versions_server"  -> ExtVersionsServer(x)
    [] x.k = "key_share_client" -> ExtKeyShareClient(x)
    [] x.k = "key_share_server" -> ExtKeyShareServer(x)
    [] x.k = "key_share_hrr"    -> ExtKeyShareHrr(x)
    [] x.k = "reneg_info"       -> ExtRenegInfo(x)
    [] x.k = "opaque"           -> ExtOpaque(x)
    [] x.k = "padding"          -> ExtPadding(x)
    [] x.k = "empty"            -> ExtEmpty(x)
    [] x.k = "status_request"   -> ExtStatusRequest(x)
    [] x.k = "npn_server"       -> ExtNpnServer(x)
    [] x.k = "sct"              -> ExtSct(x)
    [] x.k = "record_size_limit" -> ExtRecordSizeLimit(x)
    [] x.k = "psk_modes"        -> ExtPskModes(x)
    [] x.k = "compress_cert"    -> ExtCompressCert(x)
    [] x.k = "token_binding"    -> ExtTokenBinding(x)
TypedExtension(x) == U16(x.type) \o Vec2(ExtBody(x))

\* SSL 2.0 (draft 02 section 5): two-byte record header with the most significant bit set and a 15-bit length, no padding;
\* or three-byte header, most significant bit clear, 14-bit length that COVERS the padding, then the padding count
Ssl2Record(mtype, body) == U16(32768 + 1 + Len(body)) \o U8(mtype) \o body
Ssl2RecordPadded(mtype, body, pad) == U16(1 + Len(body) + pad) \o U8(pad) \o U8(mtype) \o body \o [i \in 1..pad |-> 0]
Ssl2ErrorBody(m) == U16(m.error)
Ssl2ClientHelloBody(m) == U16(m.version) \o U16(3 * Len(m.cipher_kinds)) \o U16(Len(m.session_id)) \o U16(Len(m.challenge))
                          \o Flatten([i \in 1..Len(m.cipher_kinds) |-> U24(m.cipher_kinds[i])]) \o m.session_id \o m.challenge
\* SERVER-HELLO: SESSION-ID-HIT(1) CERTIFICATE-TYPE(1)=X.509(1) SERVER-VERSION(2) three 2-byte lengths, then the three fields
Ssl2ServerHelloBody(m) == U8(IF m.session_id_hit THEN 1 ELSE 0) \o U8(1) \o U16(m.version) \o U16(Len(m.certificate))
                          \o U16(3 * Len(m.cipher_kinds)) \o U16(Len(m.connection_id)) \o m.certificate
                          \o Flatten([i \in 1..Len(m.cipher_kinds) |-> U24(m.cipher_kinds[i])]) \o m.connection_id
Ssl2Type(kind) == CASE kind = "ssl2_error" -> 0 [] kind = "ssl2_client_hello" -> 1 [] kind = "ssl2_server_hello" -> 4
Ssl2Body(kind, m) == CASE kind = "ssl2_error" -> Ssl2ErrorBody(m) [] kind = "ssl2_client_hello" -> Ssl2ClientHelloBody(m)
                       [] kind = "ssl2_server_hello" -> Ssl2ServerHelloBody(m)
Ssl2Error(m) == Ssl2Record(0, Ssl2ErrorBody(m))
Ssl2ClientHello(m) == Ssl2Record(1, Ssl2ClientHelloBody(m))
Ssl2ServerHello(m) == Ssl2Record(4, Ssl2ServerHelloBody(m))
\* the same message in the three-byte-header form with pad octets of padding (a second conformant encoding)
EncSsl2Padded(kind, m, pad) == Ssl2RecordPadded(Ssl2Type(kind), Ssl2Body(kind, m), pad)

\* a hello that carries an extensions block of length zero (RFC 5246 7.4.1.2: extensions<0..2^16-1> may be present and empty)
HelloEmptyExtensions(kind, m) == IF kind = "client_hello" THEN Handshake(1, ClientHelloBody(m) \o <<0, 0>>)
                                 ELSE Handshake(2, ServerHelloBody(m) \o <<0, 0>>)
\* second conformant encodings of an abstract message, by form
\* the signalling cipher suite values may stand anywhere in the list (RFC 5746 3.3, RFC 7507 4): here in front of the suites
ClientHelloScsvFirst(m) == Handshake(1,
     U16(m.version) \o Random(m) \o Vec1(m.session_id)
  \o Vec2(Codes16((IF m.empty_renegotiation_info_scsv THEN <<RENEG_SCSV>> ELSE <<>>)
                  \o (IF m.fallback_scsv THEN <<FALLBACK_SCSV>> ELSE <<>>) \o m.cipher_suites))
  \o Vec1(Codes8(m.compression_methods))
  \o Extensions(m.extensions))
EncAlt(form, kind, m, pad) == CASE form = "ssl2-padded" -> EncSsl2Padded(kind, m, pad)
                                [] form = "empty-extensions-block" -> HelloEmptyExtensions(kind, m)
                                [] form = "scsv-first" -> ClientHelloScsvFirst(m)

Enc(kind, m) ==
  CASE kind = "record"            -> Record(m)
    [] kind = "alert"             -> Alert(m)
    [] kind = "ccs"               -> ChangeCipherSpec(m)
    [] kind = "client_hello"      -> ClientHello(m)
    [] kind = "server_hello"      -> ServerHello(m)
    [] kind = "certificate"       -> Certificate(m)
    [] kind = "server_hello_done" -> ServerHelloDone(m)
    [] kind = "server_key_exchange" -> ServerKeyExchange(m)
    [] kind = "certificate_request" -> CertificateRequest(m)
    [] kind = "certificate_status" -> CertificateStatus(m)
    [] kind = "hello_retry_request" -> HelloRetryRequest(m)
    [] kind = "application_data"  -> ApplicationData(m)
    [] kind = "extension"         -> TypedExtension(m)
    [] kind = "ssl2_error"        -> Ssl2Error(m)
    [] kind = "ssl2_client_hello" -> Ssl2ClientHello(m)
    [] kind = "ssl2_server_hello" -> Ssl2ServerHello(m)
=============================================================================
