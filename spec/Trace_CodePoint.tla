--------------------------- MODULE Trace_CodePoint ---------------------------
(* C10, code -> specification: one line per enumeration with its table and the decoder
   outcome for EVERY value of its code space (alone and inside its list container), or -
   for wide (3/4-byte) and string-coded spaces - one line per probed code. *)
EXTENDS CodePoint, CodeTable, Json, IOUtils, TLC, TLCExt

T == ndJsonDeserialize(IOEnv.TRACE_FILE)
VARIABLE l
Report(ok, what) == IF ok THEN TRUE ELSE PrintT(what)
Allow == {<<"DH_KEX_REPLY", "DH_GEX_GROUP">>, <<"DH_KEX_INIT", "DH_GEX_REQUEST_OLD">>}   \* RFC 4253 / RFC 4419 share 30 and 31

Space(e) == 0..(e.space - 1)

CheckSpace(e) ==
  /\ Report(Injective(e.table, Allow), <<"BAD", "two-names-share-a-code", l, 0>>)
  /\ \A m \in 1..Len(e.table) :
        Report(e.table[m].code >= e.space \/ RowFaithful(e.table, e.single, m), <<"BAD", "known-code-not-decoded-to-its-member", l, e.table[m].code>>)
  /\ \A c \in Space(e) :
        /\ Report(CodeOk(e.table, e.single, c),
                  <<"BAD", IF e.single[c + 1] > 0 THEN "code-redirected-to-other-member"
                           ELSE IF e.single[c + 1] = -2 THEN "unknown-code-not-preserved-verbatim"
                           ELSE IF e.single[c + 1] = -3 THEN "reencoding-differs" ELSE "undocumented-error", l, c>>)
        /\ Report(e.list = <<>> \/ e.list[c + 1] >= 0,
                  <<"BAD", IF e.list = <<>> THEN "-" ELSE
                           IF e.list[c + 1] = -1 THEN "item-dropped-from-list"
                           ELSE IF e.list[c + 1] = -2 THEN "list-item-redirected"
                           ELSE IF e.list[c + 1] = -3 THEN "list-reencoding-differs" ELSE "list-undocumented-error", l, c>>)
        \* the list container agrees with the single decoder: a code decodable alone is not silently changed in a list
        /\ Report(e.list = <<>> \/ e.list[c + 1] # 1 \/ e.single[c + 1] # -99, <<"BAD", "-", l, c>>)

CheckProbe(e) ==
  /\ Report(e.outcome \in {"member", "preserved", "invalid"},
            <<"BAD", IF e.outcome = "redirected" THEN "code-redirected-to-other-member"
                     ELSE IF e.outcome = "altered" THEN "unknown-code-not-preserved-verbatim"
                     ELSE IF e.outcome = "reencoded" THEN "reencoding-differs" ELSE "undocumented-error", l, 0>>)
  /\ Report(~e.known \/ e.outcome = "member", <<"BAD", "known-code-not-decoded-to-its-member", l, 0>>)
  /\ Report(e.listoutcome \in {"ok", "rejected", "-"},
            <<"BAD", IF e.listoutcome = "dropped" THEN "item-dropped-from-list" ELSE
                     IF e.listoutcome = "redirected" THEN "list-item-redirected" ELSE
                     IF e.listoutcome = "reencoded" THEN "list-reencoding-differs" ELSE "list-undocumented-error", l, 0>>)

\* the enumerations defined in the repository against the numbers the protocol documents assign (CodeTable)
CheckRegistry(e) ==
  \A m \in 1..Len(e.table) :
     Report(~Listed(e.enum, e.table[m].name) \/ Assigned(e.enum, e.table[m].name) = e.table[m].code,
            <<"BAD", "code-point-differs-from-the-protocol-document", l, m>>)

CheckStrRegistry(e) ==
  \A m \in 1..Len(e.table) :
     Report(~StrListed(e.enum, e.table[m].name) \/ StrAssigned(e.enum, e.table[m].name) = e.table[m].text,
            <<"BAD", "name-on-the-wire-differs-from-the-protocol-document", l, m>>)

Init == l = 1
Next == l <= Len(T) /\ (IF T[l].ev = "space" THEN CheckSpace(T[l]) ELSE IF T[l].ev = "registry" THEN CheckRegistry(T[l]) ELSE IF T[l].ev = "strregistry" THEN CheckStrRegistry(T[l]) ELSE IF T[l].ev = "table" THEN Report(Injective(T[l].table, Allow), <<"BAD", "two-names-share-a-code", l, 0>>) ELSE CheckProbe(T[l])) /\ l' = l + 1
Spec == Init /\ [][Next]_l
AllConsumed == TLCGet("stats").diameter = Len(T) + 1
=============================================================================
