SPECIFICATION Spec
CONSTANTS
  Wrap3 = FALSE
  HalfArrays = FALSE
POSTCONDITION AllConsumed
CHECK_DEADLOCK FALSE
