-------------------------- MODULE Trace_ComposerBinary --------------------------
(* Primitive-level traces of the real composer (every public ComposerBinary call made while real objects compose),
   validated against ComposerBinary.tla:
     {"name":..,"det":bool,"order":..,"d":[digits],"ds":[[digits]..],"w":..,"neg":bool,"body":[..],"blen":[digits],"n":..,
      "out":"ok"|error,"len0":..,"len1":..,"prefix_same":bool,"app":[appended bytes],"applen":..}
   det = the recorder could describe the arguments (plain integers, short byte strings); for the other calls only the laws
   of every primitive are checked. *)
EXTENDS ComposerBinary, Json, IOUtils, TLC, TLCExt
T == ndJsonDeserialize(IOEnv.TRACE_FILE)
VARIABLE l
Report(ok, what) == IF ok THEN TRUE ELSE PrintT(what)
Model(e) ==
  CASE e.name = "compose_numeric"       -> IF e.neg THEN Inv ELSE Numeric(e.d, e.w, e.order)
    [] e.name = "compose_numeric_array" -> NumericArray(e.ds, e.w, e.order)
    [] e.name \in {"compose_bytes", "compose_string"} -> Prefixed(e.blen, e.body, e.w, e.order)
    [] e.name = "compose_raw"           -> Raw(e.body)
    [] e.name = "compose_string_null_terminated" -> NulTerminated(e.body)
    [] e.name = "compose_ssh_mpint"     -> SshMp(e.neg, e.d)
    [] e.name = "compose_mpint"         -> FixedMp(e.d, e.n)
Modelled == {"compose_numeric", "compose_numeric_array", "compose_bytes", "compose_string", "compose_raw",
             "compose_string_null_terminated", "compose_ssh_mpint", "compose_mpint"}
Check(e) ==
  \* laws of every primitive: the buffer only grows, what was there stays, a refused call appends nothing
  /\ Report(e.len1 >= e.len0 /\ e.prefix_same, <<"BAD", "composer-changed-earlier-output", l>>)
  /\ Report(e.out = "ok" \/ e.len1 = e.len0, <<"BAD", "refused-call-left-bytes-behind", l>>)
  /\ IF e.det /\ e.name \in Modelled /\ (e.name # "compose_mpint" \/ e.order \in {"!", ">"})
     THEN LET m == Model(e) IN
          /\ Report((m.k = "ok") = (e.out = "ok"),
                    <<"BAD", IF m.k = "ok" THEN "composer-refuses-a-value-that-fits" ELSE "value-that-does-not-fit-is-not-refused", l>>)
          /\ Report(m.k # "ok" \/ e.out # "ok" \/ e.app = m.app, <<"BAD", "appended-bytes-differ-from-model", l>>)
          /\ Report(m.k = "ok" \/ e.out = "ok" \/ e.out = "InvalidValue", <<"BAD", "refused-with-undocumented-error", l>>)
     ELSE TRUE
Init == l = 1
Next == l <= Len(T) /\ Check(T[l]) /\ l' = l + 1
Spec == Init /\ [][Next]_l
AllConsumed == TLCGet("stats").diameter = Len(T) + 1
=============================================================================
