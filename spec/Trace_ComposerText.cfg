SPECIFICATION Spec
CONSTANTS
  KeepLastSep = FALSE
POSTCONDITION AllConsumed
CHECK_DEADLOCK FALSE
