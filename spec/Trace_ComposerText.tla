--------------------------- MODULE Trace_ComposerText ---------------------------
(* Primitive-level traces of the real text composer (every public ComposerText call made while real objects compose),
   validated against ComposerText.tla:
     {"name":..,"det":bool,"text":[chars],"items":[[chars]..],"sep":[chars],"neg":bool,"n":..,"vals":[{"neg":..,"n":..}..],
      "kinds":["ok"|"bad"..],"b":bool,"out":"ok"|error,"len0":..,"len1":..,"prefix_same":bool,"app":[appended],"applen":..}
   det = the recorder could describe the arguments; for the other calls only the laws of every primitive are checked. *)
EXTENDS ComposerText, Json, IOUtils, TLC, TLCExt
T == ndJsonDeserialize(IOEnv.TRACE_FILE)
VARIABLE l
Report(ok, what) == IF ok THEN TRUE ELSE PrintT(what)
Model(e) ==
  CASE e.name = "compose_string"         -> CString(e.text)
    [] e.name = "compose_separator"      -> CSeparator(e.text)
    [] e.name = "compose_string_array"   -> CStringArray(e.items, e.sep)
    [] e.name = "compose_numeric"        -> CNumeric(e.neg, e.n)
    [] e.name = "compose_numeric_array"  -> CNumericArray(e.vals, e.sep)
    [] e.name = "compose_bool"           -> CBool(e.b)
    [] e.name = "compose_parsable_array" -> CParsableArray(e.kinds, e.items, e.sep)
Modelled == {"compose_string", "compose_separator", "compose_string_array", "compose_numeric", "compose_numeric_array",
             "compose_bool", "compose_parsable_array"}
Check(e) ==
  /\ Report(e.len1 >= e.len0 /\ e.prefix_same, <<"BAD", "text-composer-changed-earlier-output", l>>)
  /\ Report(e.out = "ok" \/ e.len1 = e.len0, <<"BAD", "refused-call-left-text-behind", l>>)
  /\ IF e.det /\ e.name \in Modelled
     THEN LET m == Model(e) IN
          \* a text that cannot be encoded in the composer's character set is refused as an invalid value: not modelled
          /\ Report(m.k # "ok" \/ e.out # "ok" \/ e.app = m.app, <<"BAD", "appended-text-differs-from-model", l>>)
          /\ Report(m.k # "TYPE" \/ e.out = "InvalidType", <<"BAD", "list-with-an-uncomposable-item-is-not-refused-as-invalid-type", l>>)
     ELSE TRUE
Init == l = 1
Next == l <= Len(T) /\ Check(T[l]) /\ l' = l + 1
Spec == Init /\ [][Next]_l
AllConsumed == TLCGet("stats").diameter = Len(T) + 1
=============================================================================
