----------------------------- MODULE Trace_Dispatch -----------------------------
(* Code -> specification: one line per (variant class, input) with the answer of every alternative on its own, in the declared
   order, and the answer of the dispatcher:
     {"cls":..,"exact":bool,"outs":[{"v":name,"out":..,"n":..,"dg":..},..],"res":{"out":..,"n":..,"dg":..}}            *)
EXTENDS Dispatch, Json, IOUtils, TLC, TLCExt
T == ndJsonDeserialize(IOEnv.TRACE_FILE)
VARIABLE l
Report(ok, what) == IF ok THEN TRUE ELSE PrintT(what)
Strip(os) == [i \in 1..Len(os) |-> [out |-> os[i].out, n |-> os[i].n, dg |-> os[i].dg]]
Check(e) == LET m == Decide(Strip(e.outs), e.exact) IN
  /\ Report(e.res.out # "InvalidType", <<"BAD", "dispatcher-answers-invalid-type", l>>)
  /\ Report(e.res.out = m.out, <<"BAD", IF m.out = "ok" THEN "dispatcher-refuses-what-the-deciding-alternative-accepts"
                                      ELSE IF e.res.out = "ok" THEN "dispatcher-accepts-past-the-deciding-alternative"
                                      ELSE "dispatcher-error-differs-from-the-deciding-alternative", l>>)
  /\ Report(e.res.out # "ok" \/ m.out # "ok" \/ (e.res.n = (IF e.exact THEN e.len ELSE m.n) /\ e.res.dg = m.dg),
            <<"BAD", "dispatcher-result-is-not-the-deciding-alternatives", l>>)
Init == l = 1
Next == l <= Len(T) /\ Check(T[l]) /\ l' = l + 1
Spec == Init /\ [][Next]_l
AllConsumed == TLCGet("stats").diameter = Len(T) + 1
=============================================================================
