---------------------------- MODULE Trace_DnsWire ----------------------------
EXTENDS DnsWire, Json, IOUtils, TLC, TLCExt
T == ndJsonDeserialize(IOEnv.TRACE_FILE)
VARIABLE l
Report(ok, what) == IF ok THEN TRUE ELSE PrintT(what)
Check(e) ==
  CASE e.ev = "msg" ->
         /\ Report(e.wire = DnsEnc(e.kind, e.abs), <<"BAD", "layout-differs-from-specification", l>>)
         /\ Report(~DnsConformant(e.kind, e.abs) \/ e.back_same, <<"BAD", "conformant-encoding-not-recovered", l>>)
    [] e.ev = "keytag" ->
         Report(e.key_tag = (IF e.algorithm = 1 THEN KeyTagRsaMd5(e.rdata) ELSE KeyTag(e.rdata)),
                <<"BAD", IF Len(e.rdata) % 2 = 1 THEN "key-tag-odd-length-rdata" ELSE "key-tag", l>>)
    [] e.ev = "alt" ->              \* a second conformant encoding of a TXT value: the text split into other strings
         /\ Report(SplitOk(e.abs.text, e.lens) /\ e.wire = SplitBy(e.abs.text, e.lens), <<"BAD", "harness-alternative-encoding-is-not-the-specified-one", l>>)
         /\ Report(e.out = "ok", <<"BAD", "conformant-encoding-rejected", l>>)
         /\ Report(e.out # "ok" \/ e.back_same, <<"BAD", "conformant-encoding-not-recovered", l>>)
    [] e.ev = "parse" ->            \* specification-conformant RDATA built by the harness from raw key material
         /\ Report(e.out = "ok", <<"BAD", IF e.kind = "ed448" THEN "ed448-57-octet-key-rejected" ELSE "conformant-rdata-rejected", l>>)
         /\ Report(e.out # "ok" \/ e.key_bytes_kept, <<"BAD", IF e.kind = "idn-name" THEN "conformant-rdata-not-recomposed" ELSE "key-bytes-dropped", l>>)
Init == l = 1
Next == l <= Len(T) /\ Check(T[l]) /\ l' = l + 1
Spec == Init /\ [][Next]_l
AllConsumed == TLCGet("stats").diameter = Len(T) + 1
=============================================================================
