SPECIFICATION Spec
POSTCONDITION AllConsumed
CHECK_DEADLOCK FALSE
CONSTANTS
  Size = 1
  Advances = {1}
  Variants = 1
