----------------------------- MODULE Trace_Growth -----------------------------
(* C19, code -> specification: one line per measurement series
     {"cls":..,"shape":..,"history":bool,"points":[{"size":..,"declared":..,"steps":..,"depth":..,"out":..},..]}            *)
EXTENDS Growth, Json, IOUtils, TLCExt
T == ndJsonDeserialize(IOEnv.TRACE_FILE)
VARIABLE l
Report(ok, what) == IF ok THEN TRUE ELSE PrintT(what)
Check(e) == LET p == e.points c0 == p[1].steps IN
  \* super-linear growth shows at every doubling; a single step (a declared length that is only satisfied from some size on)
  \* is a change of path, not of growth: the law must fail at two consecutive doublings
  /\ Report(~\E i \in 2..(Len(p) - 1) : ~PointOk(p[i - 1], p[i], c0) /\ ~PointOk(p[i], p[i + 1], c0), <<"BAD", "work-grows-faster-than-linear", l>>)
  /\ Report(\A i \in 1..Len(p) : Bounded(p[i]),
            <<"BAD", IF Len(p) > 1 /\ p[1].size = p[Len(p)].size THEN "work-follows-declared-length" ELSE "work-exceeds-per-byte-bound", l>>)
  \* history series: the same input after more and more earlier parses (declared = their number) costs what it cost at first
  /\ Report(~e.history \/ \A i \in 1..Len(p) : HistoryOk(p[1], p[i]), <<"BAD", "work-depends-on-earlier-parses", l>>)
  /\ Report(\A i \in 1..Len(p) : p[i].depth <= DepthBound, <<"BAD", "recursion-depth-grows", l>>)
  /\ Report(\A i \in 1..Len(p) : p[i].out # "RecursionError" /\ p[i].out # "MemoryError" /\ p[i].out # "timeout", <<"BAD", "did-not-terminate-normally", l>>)
Init == l = 1 /\ pos = 0 /\ work = 0
Next == l <= Len(T) /\ Check(T[l]) /\ l' = l + 1 /\ UNCHANGED lvars
Spec == Init /\ [][Next]_<<l, pos, work>>
AllConsumed == TLCGet("stats").diameter = Len(T) + 1
=============================================================================
