----------------------------- MODULE Trace_Heap -----------------------------
(* C13, both directions.  A trace is a history of the actions of Heap.tla executed on real
   objects of one class (the history itself is a behaviour TLC generated from Heap.tla, or
   the observer calls made by the repository's own tests):
     {"ev":"begin","tid":..,"cls":..,"pristine":dg,"parsed":dg}
     {"ev":"step","op":[name,slot,f],"obs":observer name,"dg":{"a":dg,"b":dg},"out":result digest}
   dg values are projection digests ("-" = empty slot).  The model state is the ghost state
   of Heap.tla: the digest every slot must have.  Clauses:
     observe    no live object changes; a repeated observer returns what it returned before
     mutate(s)  no OTHER object changes
     new(s)     the new object equals the pristine default object of the class (fields whose default
                is random or time based - they differ between any two fresh objects - are masked)
     parse(s)   the object parsed from the caller's bytearray equals the one parsed from an
                immutable copy of the same bytes
     bufmutate  no object changes
     newfrom(s) construct from containers the caller keeps (lists for vector fields): no other object changes
     argmutate  the caller edits those containers afterwards: no object changes
     resmutate  the caller edits the value the last observer returned: no object changes *)
EXTENDS Naturals, Sequences, Json, IOUtils, TLC, TLCExt

T == ndJsonDeserialize(IOEnv.TRACE_FILE)
Slots == {"a", "b"}
Observers == {"compose", "as_json", "as_markdown", "as_markdown_enc", "ja3", "hassh", "hassh_server", "fingerprints", "key_tag",
              "key_bytes", "host_key_asdict"}

VARIABLES l, beg, exp, memo
vars == <<l, beg, exp, memo>>
Report(ok, what) == IF ok THEN TRUE ELSE PrintT(what)
NoMemo == [s \in Slots |-> [f \in Observers |-> "?"]]

Init == l = 1 /\ beg = 0 /\ exp = [s \in Slots |-> "-"] /\ memo = NoMemo

Begin == /\ T[l].ev = "begin"
         /\ beg' = l /\ exp' = [s \in Slots |-> "-"] /\ memo' = NoMemo /\ l' = l + 1

Others(s) == Slots \ {s}
Step == /\ T[l].ev = "step"
        /\ LET e == T[l] name == e.op[1] s == e.op[2] b == T[beg] IN
           CASE name = "observe" ->
                  /\ Report(\A t \in Slots : e.dg[t] = exp[t],
                            <<"BAD", IF e.out = "raised" THEN "failed-observer-changed-object" ELSE "observer-changed-object", l, e.obs>>)
                  /\ Report(memo[s][e.obs] = "?" \/ memo[s][e.obs] = e.out, <<"BAD", "observer-result-not-repeatable", l, e.obs>>)
                  /\ Report(e.state_ok, <<"BAD", "observer-left-process-wide-state-changed", l, e.obs>>)
                  /\ memo' = [memo EXCEPT ![s][e.obs] = e.out]
                  /\ exp' = [t \in Slots |-> e.dg[t]]
             [] name = "mutate" ->
                  /\ Report(\A t \in Others(s) : e.dg[t] = exp[t], <<"BAD", "edit-changed-another-object", l, e.obs>>)
                  /\ memo' = [memo EXCEPT ![s] = NoMemo[s]]
                  /\ exp' = [t \in Slots |-> e.dg[t]]
             [] name = "new" ->
                  /\ Report(e.pd = b.pristine, <<"BAD", "default-object-not-pristine", l, e.obs>>)
                  /\ Report(\A t \in Others(s) : e.dg[t] = exp[t], <<"BAD", "construction-changed-another-object", l, e.obs>>)
                  /\ memo' = [memo EXCEPT ![s] = NoMemo[s]]
                  /\ exp' = [t \in Slots |-> e.dg[t]]
             [] name = "parse" ->
                  /\ Report(e.dg[s] = e.parsed, <<"BAD", "parsed-object-differs", l, e.obs>>)
                  /\ Report(\A t \in Others(s) : e.dg[t] = exp[t], <<"BAD", "parse-changed-another-object", l, e.obs>>)
                  /\ memo' = [memo EXCEPT ![s] = NoMemo[s]]
                  /\ exp' = [t \in Slots |-> e.dg[t]]
             [] name = "newfrom" ->
                  /\ Report(\A t \in Others(s) : e.dg[t] = exp[t], <<"BAD", "construction-changed-another-object", l, e.obs>>)
                  /\ memo' = [memo EXCEPT ![s] = NoMemo[s]]
                  /\ exp' = [t \in Slots |-> e.dg[t]]
             [] name = "argmutate" ->
                  /\ Report(\A t \in Slots : e.dg[t] = exp[t], <<"BAD", "object-aliases-constructor-argument", l, e.obs>>)
                  /\ memo' = memo
                  /\ exp' = [t \in Slots |-> e.dg[t]]
             [] name = "resmutate" ->
                  /\ Report(\A t \in Slots : e.dg[t] = exp[t], <<"BAD", "observer-result-aliases-the-object", l, e.obs>>)
                  /\ memo' = memo
                  /\ exp' = [t \in Slots |-> e.dg[t]]
             [] name = "bufmutate" ->
                  /\ Report(\A t \in Slots : e.dg[t] = exp[t], <<"BAD", "object-aliases-input-buffer", l, e.obs>>)
                  /\ memo' = memo
                  /\ exp' = [t \in Slots |-> e.dg[t]]
        /\ l' = l + 1 /\ UNCHANGED beg

Next == l <= Len(T) /\ (Begin \/ Step)
Spec == Init /\ [][Next]_vars
AllConsumed == TLCGet("stats").diameter = Len(T) + 1
=============================================================================
