--------------------------- MODULE Trace_ParseApi ---------------------------
(* C03 (and the outcome clause of C02), code -> specification: one line per (class, buffer)
   with the results of all three entry points, plus - for stream framing units - the
   results of re-parsing the consumed prefix alone and followed by other bytes. *)
EXTENDS ParseApi, Framing, Json, IOUtils, TLC, TLCExt

T == ndJsonDeserialize(IOEnv.TRACE_FILE)
VARIABLE l
Report(ok, what) == IF ok THEN TRUE ELSE PrintT(what)

Check(e) ==
  /\ Report(ConsumedInRange(e), <<"BAD", IF e.imm.n > e.len THEN "consumed-beyond-buffer"
                                         ELSE IF e.imm.n < 0 THEN "consumed-negative" ELSE "consumed-zero", l>>)
  /\ Report(ImmutableUntouched(e), <<"BAD", "immutable-parse-changed-buffer", l>>)
  /\ Report(MutableAgrees(e), <<"BAD", "mutable-outcome-differs", l>>)
  /\ Report(MutableRemovesPrefix(e), <<"BAD", "mutable-removed-wrong-bytes", l>>)
  /\ Report(FailureLeavesBuffer(e), <<"BAD", "failed-parse-changed-buffer", l>>)
  /\ Report(ExactIffAll(e), <<"BAD", IF e.imm.out = "ok" /\ e.imm.n < e.len /\ e.exact.out = "ok"
                                     THEN "exact-size-accepts-trailing-bytes" ELSE "exact-size-disagrees", l>>)
  \* a frame that is a conformant encoding by the protocol document (established by the wire specifications: a second
  \* spelling of an accepted record, e.g. the padded SSL 2.0 header form) is accepted completely
  /\ Report(e.must => e.imm.out = "ok" /\ e.imm.n = e.len, <<"BAD", "conformant-frame-rejected", l>>)
  \* C02: only the documented errors escape
  /\ Report(IsDocumented(e.imm.out) /\ IsDocumented(e.mut.out) /\ IsDocumented(e.exact.out), <<"LEAK", e.imm.out, l>>)
  \* framing units: self-delimiting, and n is the length the header declares
  /\ IF e.unit # "" /\ e.imm.out = "ok"
     THEN /\ Report(\A i \in 1..Len(e.reparse) : e.reparse[i].out = "ok" /\ e.reparse[i].n = e.imm.n /\ e.reparse[i].same,
                    <<"BAD", "not-self-delimiting", l>>)
          /\ Report(Len(e.head) < HeaderSize(e.unit, e.head) \/ e.imm.n = DeclaredLen(e.unit, e.head),
                    <<"BAD", "consumed-is-not-declared-length", l>>)
     ELSE TRUE

Init == l = 1
Next == l <= Len(T) /\ Check(T[l]) /\ l' = l + 1
Spec == Init /\ [][Next]_l
AllConsumed == TLCGet("stats").diameter = Len(T) + 1
=============================================================================
