SPECIFICATION Spec
CONSTANTS
  Checked = TRUE
POSTCONDITION AllConsumed
CHECK_DEADLOCK FALSE
