--------------------------- MODULE Trace_ParserBinary ---------------------------
(* Primitive-level traces of the real engine (every public ParserBinary call made while real classes parse real and
   mutated inputs), validated step by step against ParserBinary.tla.
     {"name":..,"pos0":..,"pos1":..,"len":..,"w":..,"count":..,"size":..,"big":bool,"hdr":[..],"nulat":..,"out":"ok"|"NotEnoughData"|..,"need":..} *)
EXTENDS ParserBinary, Json, IOUtils, TLC, TLCExt
T == ndJsonDeserialize(IOEnv.TRACE_FILE)
VARIABLE l
Report(ok, what) == IF ok THEN TRUE ELSE PrintT(what)
Check(e) ==
  /\ Report(e.out # "ok" \/ PosInBuffer(e.pos1, e.len), <<"BAD", "cursor-beyond-buffer", l>>)
  /\ Report(e.out # "ok" \/ e.pos1 >= e.pos0, <<"BAD", "cursor-moved-backwards", l>>)
  /\ Report(e.out # "NotEnoughData" \/ e.need >= 1, <<"BAD", "need-below-one", l>>)
  /\ IF Determined(e) /\ e.out \in {"ok", "NotEnoughData"}
     THEN LET m == Model(e) IN
          \* primitives that parse nested values inside the declared region may pass on a nested "not enough data"
          /\ Report((e.out = "ok") = (m.k = "ok") \/ (m.k = "ok" /\ e.name \in {"parse_parsable_array", "parse_parsable_derived_array", "parse_parsable_sized"}),
                    <<"BAD", IF m.k = "NED" THEN "accepted-without-the-bytes" ELSE "refused-although-bytes-present", l>>)
          /\ Report(e.out # "ok" \/ m.k # "ok" \/ e.pos1 = m.pos, <<"BAD", "consumed-length-differs-from-model", l>>)
          /\ Report(e.out # "NotEnoughData" \/ m.k # "NED" \/ e.need = m.need, <<"DEV", "missing-byte-count-differs-from-model", l>>)
          /\ Report(e.out # "NotEnoughData" \/ m.k # "NED" \/ e.need <= m.need \/ e.need >= 2000000000, <<"BAD", "asks-for-more-than-missing", l>>)   \* counts of 2e9 and above are capped by the recorder
     ELSE TRUE
Init == l = 1
Next == l <= Len(T) /\ Check(T[l]) /\ l' = l + 1
Spec == Init /\ [][Next]_l
AllConsumed == TLCGet("stats").diameter = Len(T) + 1
=============================================================================
