SPECIFICATION Spec
POSTCONDITION AllConsumed
CHECK_DEADLOCK FALSE
