---------------------------- MODULE Trace_ParserText ----------------------------
(* Primitive-level traces of the real text list engine (every ParserText.parse_string_array call made while real classes
   parse real and respelled inputs), validated against the as-coded model ParserText!StringArray:
     {"plain":bool,"text":[chars from the cursor],"long":bool,"seps":[..],"spaces":[..],"skip":bool,"maxitems":n,
      "out":"ok"|error,"items":[[chars]..],"consumed":n,"count":n}
   plain = items are plain strings (no item class): items and consumed length are compared; otherwise only the consumed
   length and the number of items (the item class decides what an item becomes, not where it ends). *)
EXTENDS ParserText, Json, IOUtils, TLC, TLCExt
T == ndJsonDeserialize(IOEnv.TRACE_FILE)
VARIABLE l
Report(ok, what) == IF ok THEN TRUE ELSE PrintT(what)
AsSet(s) == {s[i] : i \in 1..Len(s)}
Check(e) ==
  IF e.long \/ e.seps = <<>> THEN TRUE
  ELSE LET m == StringArray(e.text, AsSet(e.seps), AsSet(e.spaces), e.skip, e.maxitems) IN
       /\ Report((m.k = "ok") = (e.out = "ok") \/ (~e.plain /\ m.k = "ok"),
                 <<"BAD", IF m.k = "ok" THEN "list-engine-refuses-what-the-model-accepts" ELSE "list-engine-accepts-what-the-model-refuses", l>>)
       /\ Report(m.k # "ok" \/ e.out # "ok" \/ e.consumed = m.pos, <<"BAD", "list-engine-consumed-length-differs-from-model", l>>)
       /\ Report(m.k # "ok" \/ e.out # "ok" \/ e.count = Len(m.items), <<"BAD", "list-engine-item-count-differs-from-model", l>>)
       /\ Report(~e.plain \/ m.k # "ok" \/ e.out # "ok" \/ e.items = m.items, <<"BAD", "list-engine-items-differ-from-model", l>>)
Init == l = 1
Next == l <= Len(T) /\ Check(T[l]) /\ l' = l + 1
Spec == Init /\ [][Next]_l
AllConsumed == TLCGet("stats").diameter = Len(T) + 1
=============================================================================
