----------------------------- MODULE Trace_Prim -----------------------------
(* C11, code -> specification: every line is one call of a ComposerBinary / ParserBinary
   primitive (or a block of consecutive values) with what the implementation produced;
   TLC compares with the reference of Prim.tla.  "out" is "ok" or the exception name. *)
EXTENDS Prim, Json, IOUtils, TLC, TLCExt

T == ndJsonDeserialize(IOEnv.TRACE_FILE)
VARIABLE l
Report(ok, what) == IF ok THEN TRUE ELSE PrintT(what)
ToDigits(n) == LET RECURSIVE F(_) F(k) == IF k = 0 THEN <<>> ELSE F(k \div 256) \o <<k % 256>> IN F(n)

\* an out-of-range value must be refused with InvalidValue, never truncated; an in-range one encoded exactly
IntOk(e) == LET ref == Enc(e.d, e.w, e.order) IN
            IF ref = Invalid THEN e.out = "InvalidValue" ELSE e.out = "ok" /\ e.wire = ref
NegOk(e) == e.out = "InvalidValue"                      \* negative numbers have no unsigned encoding
PIntOk(e) == e.out = "ok" /\ e.d = Dec(e.wire, e.order) /\ e.n = e.w
BlockOk(e) == \A i \in 0..(e.count - 1) :
                 SubSeq(e.wire, i * e.w + 1, (i + 1) * e.w) = Enc(ToDigits(e.start + i), e.w, e.order)
PBlockOk(e) == \A i \in 0..(e.count - 1) : e.vals[i + 1] = e.start + i
FlagsOk(e) == /\ e.out = "ok" /\ e.wire = OrAll(e.members, e.w)
              /\ e.back = e.ids                            \* parse(compose(S)) = S
SshMpintOk(e) == /\ e.out = "ok"
                 /\ e.back_neg = e.neg /\ e.back_mag = e.mag                        \* round trip, both signs
                 /\ (~e.neg => e.wire = SshMpint(FALSE, e.mag))                      \* exact and minimal for non-negative
MpintOk(e) == LET ref == FixedMpint(e.mag, e.n) IN
              IF ref = Invalid THEN e.out = "InvalidValue" ELSE e.out = "ok" /\ e.wire = ref /\ e.back = e.mag
TsOk(e) == LET ref == EncTs(e.forever, e.secs, e.millis, e.w, e.ms) IN
           IF ref = Invalid THEN e.out = "InvalidValue"
           ELSE /\ e.out = "ok" /\ e.wire = ref
                /\ e.back_forever = e.forever /\ (e.forever \/ (e.back_secs = e.secs /\ e.back_millis = (IF e.ms THEN e.millis ELSE 0)))

Check(e) ==
  CASE e.k = "cint"     -> Report(IntOk(e), <<"BAD", IF Enc(e.d, e.w, e.order) = Invalid THEN "out-of-range-not-refused" ELSE "int-encoding", l>>)
    [] e.k = "cneg"     -> Report(NegOk(e), <<"BAD", "negative-not-refused", l>>)
    [] e.k = "pint"     -> Report(PIntOk(e), <<"BAD", "int-decoding", l>>)
    [] e.k = "cblock"   -> Report(BlockOk(e), <<"BAD", "int-encoding", l>>)
    [] e.k = "pblock"   -> Report(PBlockOk(e), <<"BAD", "int-decoding", l>>)
    [] e.k = "flags"    -> Report(FlagsOk(e), <<"BAD", "flags", l>>)
    [] e.k = "mflags"   -> Report(e.back = e.ids, <<"BAD", "flags-in-message", l>>)      \* the set in a message survives compose and parse
    [] e.k = "sshmpint" -> Report(SshMpintOk(e), <<"BAD", IF e.neg THEN "ssh-mpint-negative" ELSE "ssh-mpint", l>>)
    [] e.k = "mpint"    -> Report(MpintOk(e), <<"BAD", IF FixedMpint(e.mag, e.n) = Invalid THEN "mpint-too-long-not-refused" ELSE "mpint", l>>)
    [] e.k = "ts"       -> Report(TsOk(e), <<"BAD", "timestamp", l>>)
    \* the same field read behind and in front of other bytes: same value, same consumed length
    [] e.k = "cursor"   -> Report(e.same, <<"BAD", "result-depends-on-what-surrounds-the-field", l>>)

Init == l = 1
Next == l <= Len(T) /\ Check(T[l]) /\ l' = l + 1
Spec == Init /\ [][Next]_l
AllConsumed == TLCGet("stats").diameter = Len(T) + 1
=============================================================================
