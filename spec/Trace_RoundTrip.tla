--------------------------- MODULE Trace_RoundTrip ---------------------------
(* C01 and C05, code -> specification.
     {"ev":"rt",    "cls":..,"origin":..,"compose":out,"wire_len":..,"parse":out,"n":..,"p":dg,"back":dg}
     {"ev":"canon", "cls":..,"origin":..,"c1":out,"parse2":out,"n2":..,"len2":..,"same12":bool,"c2":out,"stable":bool} *)
EXTENDS ParseApi, Json, IOUtils, TLC, TLCExt
T == ndJsonDeserialize(IOEnv.TRACE_FILE)
VARIABLE l
Report(ok, what) == IF ok THEN TRUE ELSE PrintT(what)

CheckRt(e) ==
  /\ Report(HasWireForm(e) \/ NoWireForm(e), <<"BAD", "compose-raised-undocumented-error", l>>)
  /\ Report(RoundTrip(e),
            <<"BAD", IF e.parse # "ok" THEN "composed-bytes-rejected"
                     ELSE IF e.n # e.wire_len THEN "composed-bytes-not-consumed" ELSE "parsed-object-differs", l>>)
  \* field-by-field equal objects are equal for the library's own == / != / hash as well
  /\ Report(e.eq_ok, <<"BAD", IF e.eq_converse THEN "different-fields-but-objects-compare-equal" ELSE "equal-fields-but-objects-compare-unequal", l>>)
CheckCanon(e) ==
  Report(Canonical(e),
         <<"BAD", IF e.c1 # "ok" THEN "accepted-input-cannot-be-composed"
                  ELSE IF e.parse2 # "ok" THEN "canonical-form-rejected"
                  ELSE IF e.n2 # e.len2 THEN "canonical-form-not-consumed"
                  ELSE IF ~e.same12 THEN "canonical-form-changes-meaning"
                  ELSE "canonical-form-not-stable", l>>)
Init == l = 1
Next == l <= Len(T) /\ (IF T[l].ev = "rt" THEN CheckRt(T[l]) ELSE CheckCanon(T[l])) /\ l' = l + 1
Spec == Init /\ [][Next]_l
AllConsumed == TLCGet("stats").diameter = Len(T) + 1
=============================================================================
