--------------------------- MODULE Trace_Serialize ---------------------------
(* C14, code -> specification.  The same deterministic list of objects is serialised in several
   fresh processes ("environments": different PYTHONHASHSEED, different order of serialisation,
   each object twice).  One line per (environment, object):
     {"ev":"ser","env":k,"oid":i,"cls":..,"json_ok":b,"json_wf":b,"json":dg,"json2":dg,"md_ok":b,"md_text":b,"md":dg,"md2":dg,
      "rt_ok":b,"rt_json":dg,"rt_md":dg}
   Lines of environment 0 come first and define the reference rendering of every object. *)
EXTENDS Naturals, Sequences, Json, IOUtils, TLC, TLCExt
T == ndJsonDeserialize(IOEnv.TRACE_FILE)
VARIABLES l, ref
vars == <<l, ref>>
Report(ok, what) == IF ok THEN TRUE ELSE PrintT(what)
NObj == T[1].nobj
Init == l = 2 /\ ref = [i \in 1..NObj |-> <<"-", "-", "-">>]

Check(e) ==
  /\ Report(e.json_ok, <<"BAD", "as_json-raised", l>>)
  /\ Report(~e.json_ok \/ e.json_wf, <<"BAD", "json-not-well-formed", l>>)
  /\ Report(e.md_ok, <<"BAD", "as_markdown-raised", l>>)
  /\ Report(~e.md_ok \/ e.md_text, <<"BAD", "markdown-is-not-text", l>>)
  /\ Report(e.json = e.json2 /\ e.md = e.md2, <<"BAD", "second-serialisation-differs", l>>)
  /\ Report(~e.rt_ok \/ (e.rt_json = e.json /\ e.rt_md = e.md), <<"BAD", "round-tripped-object-renders-differently", l>>)
  \* ... and an object the library's own == calls equal to this one although a field was given another value
  /\ Report(~e.eq_base \/ (e.base_json = e.json /\ e.base_md = e.md), <<"BAD", "equal-objects-render-differently", l>>)
  /\ Report(e.env = 0 \/ ref[e.oid] = <<"-", "-", "-">> \/ (ref[e.oid][1] = e.json /\ ref[e.oid][2] = e.md),
            <<"BAD", "output-depends-on-process-history-or-hash-seed", l>>)
  \* rendering under an application-installed text encoder: the same text whether that encoder was installed before or
  \* after the class was first rendered under the default one
  /\ Report(e.env = 0 \/ ref[e.oid] = <<"-", "-", "-">> \/ ref[e.oid][3] = e.md_enc,
            <<"BAD", "output-depends-on-encoder-installed-earlier", l>>)

Next == /\ l <= Len(T)
        /\ Check(T[l])
        /\ ref' = IF T[l].env = 0 THEN [ref EXCEPT ![T[l].oid] = <<T[l].json, T[l].md, T[l].md_enc>>] ELSE ref
        /\ l' = l + 1
Spec == Init /\ [][Next]_vars
AllConsumed == TLCGet("stats").diameter = Len(T)
=============================================================================
