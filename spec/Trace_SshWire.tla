---------------------------- MODULE Trace_SshWire ----------------------------
(* C07 and C16, code -> specification.
     {"ev":"msg","kind":..,"abs":{..},"wire":[..],"back_same":bool}
     {"ev":"packet","n":payload length,"packet_length":..,"padding_length":..,"total":..,"head_ok":bool}
     {"ev":"hassh","wire":[KEXINIT payload],"pre_client":[..],"pre_server":[..],"md5_client_ok":bool,"md5_server_ok":bool,"stable":bool}
     {"ev":"fp","kind":..,"abs":{..},"key_bytes":[..],"sha256_ok":..,"sha1_ok":..,"md5_ok":..,"known_hosts_ok":..} *)
EXTENDS SshWire, Json, IOUtils, TLC, TLCExt
T == ndJsonDeserialize(IOEnv.TRACE_FILE)
VARIABLE l
Report(ok, what) == IF ok THEN TRUE ELSE PrintT(what)

Check(e) ==
  CASE e.ev = "msg" ->
         /\ Report(e.wire = SshEnc(e.kind, e.abs), <<"BAD", "layout-differs-from-specification", l>>)
         /\ Report(~Conformant(e.kind, e.abs) \/ e.back_same, <<"BAD", "conformant-encoding-not-recovered", l>>)
    [] e.ev = "packet" ->
         /\ Report(e.padding_length = PadLen(e.n) /\ e.packet_length = PacketLength(e.n), <<"BAD", "packet-length-or-padding", l>>)
         /\ Report(e.total = PacketTotal(e.n) /\ e.total % 8 = 0 /\ e.padding_length >= 4 /\ e.padding_length <= 255, <<"BAD", "packet-not-multiple-of-8", l>>)
         /\ Report(e.head_ok, <<"BAD", "packet-header-or-payload-misplaced", l>>)
    [] e.ev = "hassh" ->
         /\ Report(e.pre_client = HasshClientPreimage(e.wire), <<"BAD", "hassh-client-not-wire-name-lists", l>>)
         /\ Report(e.pre_server = HasshServerPreimage(e.wire), <<"BAD", "hassh-server-not-wire-name-lists", l>>)
         /\ Report(e.md5_client_ok, <<"BAD", "hassh-client-is-not-md5-of-preimage", l>>)
         /\ Report(e.md5_server_ok, <<"BAD", "hassh-server-is-not-md5-of-preimage", l>>)
         /\ Report(e.stable, <<"BAD", "hassh-changes-after-compose-parse", l>>)
    [] e.ev = "fp" ->
         /\ Report(e.key_bytes = SshEnc(e.kind, e.abs), <<"BAD", "key-blob-is-not-rfc4253-encoding", l>>)
         /\ Report(e.sha256_ok /\ e.sha1_ok /\ e.md5_ok, <<"BAD", "fingerprint-is-not-digest-of-blob", l>>)
         /\ Report(e.known_hosts_ok, <<"BAD", "known-hosts-is-not-base64-of-blob", l>>)
         \* a blob that IS the specified encoding (first clause), received and parsed: same fingerprint
         /\ Report(e.key_bytes # SshEnc(e.kind, e.abs) \/ e.reparsed_ok, <<"BAD", "fingerprint-of-the-parsed-blob-differs", l>>)
    [] e.ev = "conformant_blob" ->   \* a blob built from a conformant one by exchanging the REQUIRED curve (RFC 5656 10.1): same layout
         Report(e.out = "ok" /\ e.same, <<"BAD", IF e.out = "ok" THEN "conformant-key-blob-not-recomposed" ELSE "conformant-key-blob-rejected", l>>)
    [] e.ev = "fpfail" ->        \* the key blob (or the blob of the signature key inside a certificate) could not be produced at all
         Report(FALSE, <<"BAD", "key-blob-cannot-be-composed", l>>)
    [] e.ev = "wirefp" ->        \* a key or certificate as received: the fingerprint is the digest of the received blob.
         \* For a blob in another than the canonical spelling (an mpint with leading zeros, ...) the library hashes the
         \* canonical blob of the key; the property text does not say which of the two is "the" blob: reported, not judged.
         Report(e.ok, <<IF e.mutated THEN "DEV" ELSE "BAD", "fingerprint-is-not-digest-of-received-blob", l>>)
Init == l = 1
Next == l <= Len(T) /\ Check(T[l]) /\ l' = l + 1
Spec == Init /\ [][Next]_l
AllConsumed == TLCGet("stats").diameter = Len(T) + 1
=============================================================================
