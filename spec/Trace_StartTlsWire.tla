-------------------------- MODULE Trace_StartTlsWire --------------------------
EXTENDS StartTlsWire, Json, IOUtils, TLC, TLCExt
T == ndJsonDeserialize(IOEnv.TRACE_FILE)
VARIABLE l
Report(ok, what) == IF ok THEN TRUE ELSE PrintT(what)
Check(e) ==
  CASE e.ev = "msg" ->
         /\ Report(e.wire = StEnc(e.kind, e.abs),
                   <<"BAD", IF e.kind = "cotp" /\ e.wire = CotpSwapped(e.abs) THEN "x224-dst-ref-and-src-ref-exchanged"
                            ELSE "layout-differs-from-specification", l>>)
         /\ Report(~StConformant(e.kind, e.abs) \/ e.back_same, <<"BAD", "conformant-encoding-not-recovered", l>>)
         \* a PDU parsed as a confirm / response is never returned as a request object (and vice versa)
         /\ Report(WireType(e.kind, e.wire) = "-" \/ e.parsed_type = WireType(e.kind, e.wire), <<"BAD", "parsed-object-type-differs-from-wire", l>>)
    [] e.ev = "alt" ->     \* a second conformant encoding (BER long-form length) built by the harness
         /\ Report(e.wire = LdapAlt(e.kind, e.abs, e.where, e.k), <<"BAD", "harness-alternative-encoding-is-not-the-specified-one", l>>)
         /\ Report(e.out = "ok" /\ e.n = Len(e.wire), <<"BAD", "conformant-encoding-rejected", l>>)
         /\ Report(e.out # "ok" \/ e.back_same, <<"BAD", "conformant-encoding-not-recovered", l>>)
    [] e.ev = "cross" ->   \* bytes of one message type given to the parser class of the other type
         Report(e.out # "ok" \/ e.parsed_type = e.wire_type, <<"BAD", "parsed-object-type-differs-from-wire", l>>)
Init == l = 1
Next == l <= Len(T) /\ Check(T[l]) /\ l' = l + 1
Spec == Init /\ [][Next]_l
AllConsumed == TLCGet("stats").diameter = Len(T) + 1
=============================================================================
