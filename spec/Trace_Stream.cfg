SPECIFICATION Spec
INVARIANT NoOverAsk
POSTCONDITION AllConsumed
CHECK_DEADLOCK FALSE
