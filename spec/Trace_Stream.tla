---------------------------- MODULE Trace_Stream ----------------------------
(* C04 (and the framing clause of C03), code -> specification.

   One trace = one run of the real reader loop (parse_mutable on a growing bytearray)
   over a stream of real composed frames cut into delivery chunks:
     {"ev":"begin","tid":..,"unit":..,"frames":[L1,L2,..],"heads":[[first bytes of frame 1],..]}
     {"ev":"deliver","k":..}
     {"ev":"try","buffered":..,"out":"ok"|"NotEnoughData"|<other>,"n":..,"need":..}
     {"ev":"end","got":..,"left":..}
   and, for the prefix formulation, one line per (frame, prefix length):
     {"ev":"prefix","unit":..,"len":L,"k":k,"out":..,"need":..,"n":..}
   and, for payload sizes around the capacity of the length field, one line per composed (or refused) record:
     {"ev":"sender","unit":..,"size":payload,"out":"ok"|error,"len":composed length,"head":[first bytes]}
   The model state is Stream's (dlv, cons, got, want); the parser outcome is the LOGGED
   one; TLC checks the contract and the Stream invariants at every step. *)
EXTENDS Framing, Json, IOUtils, TLC, TLCExt

T == ndJsonDeserialize(IOEnv.TRACE_FILE)

VARIABLES l, beg, dlv, cons, got, want
vars == <<l, beg, dlv, cons, got, want>>

Report(ok, what) == IF ok THEN TRUE ELSE PrintT(what)
RECURSIVE SumTo(_, _)
SumTo(fr, i) == IF i = 0 THEN 0 ELSE SumTo(fr, i - 1) + fr[i]

Init == l = 1 /\ beg = 0 /\ dlv = 0 /\ cons = 0 /\ got = 0 /\ want = 1

Begin == /\ T[l].ev = "begin"
         /\ LET e == T[l] IN
            \* the length each real frame header declares (Framing, from the protocol documents)
            \* equals the number of bytes the composer produced for it
            \A i \in 1..Len(e.frames) :
               Report(Len(e.heads[i]) < HeaderSize(e.unit, e.heads[i]) \/ DeclaredLen(e.unit, e.heads[i]) = e.frames[i],
                      <<"BAD", "declared-length", l, i>>)
         /\ beg' = l /\ dlv' = 0 /\ cons' = 0 /\ got' = 0 /\ want' = 1 /\ l' = l + 1

Deliver == /\ T[l].ev = "deliver"
           /\ dlv' = dlv + T[l].k /\ l' = l + 1 /\ UNCHANGED <<beg, cons, got, want>>

Try == /\ T[l].ev = "try"
       /\ LET e == T[l]
              fr == T[beg].frames
              L == IF got < Len(fr) THEN fr[got + 1] ELSE 0
              b == dlv - cons
          IN
          /\ Report(e.buffered = b, <<"BAD", "harness-buffer-accounting", l, 0>>)
          /\ Report(b >= want, <<"BAD", "harness-tried-too-early", l, 0>>)
          /\ IF got >= Len(fr)
             THEN /\ Report(e.out # "ok" \/ b > 0, <<"BAD", "accepted-nothing", l, 0>>)
                  /\ UNCHANGED <<cons, got, want>>
             ELSE IF b >= L
             THEN \* the whole frame is buffered: it must be accepted, exactly
                  /\ Report(e.out = "ok", <<"BAD", IF e.out = "NotEnoughData" THEN "asks-more-than-the-frame" ELSE "complete-frame-rejected", l, 0>>)
                  /\ Report(e.out # "ok" \/ e.n = L, <<"BAD", "consumed-length-not-frame-length", l, 0>>)
                  \* whatever was reported, continue from the true frame boundary (the harness
                  \* restores its buffer to that point), so one bad line does not hide the rest
                  /\ cons' = cons + L /\ got' = got + 1 /\ want' = 1
             ELSE \* a proper prefix: only "not enough data" with 1 <= need <= missing
                  /\ Report(e.out # "ok", <<"BAD", "prefix-accepted", l, 0>>)
                  /\ Report(e.out = "ok" \/ e.out = "NotEnoughData", <<"BAD", "prefix-rejected-with-other-error", l, 0>>)
                  /\ Report(e.out # "NotEnoughData" \/ (e.need >= 1 /\ e.need <= L - b),
                            <<"BAD", IF e.need < 1 THEN "need-below-one" ELSE "over-ask", l, 0>>)
                  /\ want' = IF e.out = "NotEnoughData" /\ e.need >= 1 /\ e.need <= L - b THEN b + e.need ELSE b + 1
                  /\ UNCHANGED <<cons, got>>
       /\ l' = l + 1 /\ UNCHANGED <<beg, dlv>>

End == /\ T[l].ev = "end"
       /\ LET fr == T[beg].frames IN
          /\ Report(got = Len(fr) /\ T[l].got = Len(fr), <<"BAD", "not-all-frames-reassembled", l, 0>>)
          /\ Report(cons = SumTo(fr, Len(fr)) /\ T[l].left = 0, <<"BAD", "bytes-left-over", l, 0>>)
          /\ Report(T[l].same, <<"BAD", "reassembled-frames-differ", l, 0>>)
       /\ l' = l + 1 /\ UNCHANGED <<beg, dlv, cons, got, want>>

Prefix == /\ T[l].ev = "prefix"
          /\ LET e == T[l] IN
             IF e.k >= e.len
             THEN /\ Report(e.out = "ok", <<"BAD", "complete-frame-rejected", l, 0>>)
                  /\ Report(e.out # "ok" \/ e.n = e.len, <<"BAD", "consumed-length-not-frame-length", l, 0>>)
             ELSE /\ Report(e.out # "ok", <<"BAD", "prefix-accepted", l, 0>>)
                  /\ Report(e.out = "ok" \/ e.out = "NotEnoughData", <<"BAD", "prefix-rejected-with-other-error", l, 0>>)
                  /\ Report(e.out # "NotEnoughData" \/ (e.need >= 1 /\ e.need <= e.len - e.k),
                            <<"BAD", IF e.need < 1 THEN "need-below-one" ELSE "over-ask", l, 0>>)
          /\ l' = l + 1 /\ UNCHANGED <<beg, dlv, cons, got, want>>

\* sender side, at the limits of the length field: a record the composer lets out declares its own length
\* (a payload that does not fit the field must be refused, not written with a wrapped-around length)
Sender == /\ T[l].ev = "sender"
          /\ LET e == T[l] IN
             Report(e.out # "ok" \/ Len(e.head) < HeaderSize(e.unit, e.head) \/ DeclaredLen(e.unit, e.head) = e.len,
                    <<"BAD", "declared-length", l, 0>>)
          /\ l' = l + 1 /\ UNCHANGED <<beg, dlv, cons, got, want>>

Next == l <= Len(T) /\ (Begin \/ Deliver \/ Try \/ End \/ Prefix \/ Sender)
Spec == Init /\ [][Next]_vars
\* Stream's invariant, evaluated on every state of every real run
NoOverAsk == beg = 0 \/ got >= Len(T[beg].frames) \/ cons + want <= SumTo(T[beg].frames, got + 1)
AllConsumed == TLCGet("stats").diameter = Len(T) + 1
=============================================================================
