--------------------------- MODULE Trace_TextField ---------------------------
(* C18 verdicts: one line per respelled input with what the real class made of it and of the canonical spelling. *)
EXTENDS Naturals, Sequences, Json, IOUtils, TLC, TLCExt
T == ndJsonDeserialize(IOEnv.TRACE_FILE)
VARIABLE l
Report(ok, what) == IF ok THEN TRUE ELSE PrintT(what)
Check(e) ==
  \* what a field type parses (and composes) to in a process that parsed another type before, against a process of its own
  /\ Report(e.ev # "order" \/ e.same, <<"BAD", "result-depends-on-what-was-parsed-before", l>>)
  /\ Report(e.canon_out = "ok", <<"BAD", "canonical-spelling-rejected", l>>)
  /\ Report(e.canon_out # "ok" \/ e.compose_in_set, <<"BAD", "composed-spelling-parses-differently", l>>)
  /\ Report(e.canon_out # "ok" \/ e.out = "ok", <<"BAD", "respelling-rejected", l>>)
  /\ Report(e.canon_out # "ok" \/ e.out # "ok" \/ e.same, <<"BAD", "respelling-parses-differently", l>>)
  \* a header block: every field comes back under its own name, whether the library knows that name or only a longer one
  /\ Report(e.out # "ok" \/ e.names_same, <<"BAD", "field-comes-back-under-another-name", l>>)
Init == l = 1
Next == l <= Len(T) /\ Check(T[l]) /\ l' = l + 1
Spec == Init /\ [][Next]_l
AllConsumed == TLCGet("stats").diameter = Len(T) + 1
=============================================================================
