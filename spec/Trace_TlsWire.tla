---------------------------- MODULE Trace_TlsWire ----------------------------
(* C06 and C15, code -> specification (and replay of TLC-generated hellos):
     {"ev":"msg","kind":..,"abs":{...},"wire":[..],"back_same":bool,"origin":..}      compose vs reference, parse recovers
     {"ev":"alt","kind":..,"abs":{...},"pad":k,"wire":[..],"parse":"ok"|error,"n":consumed,"back_same":bool}   second conformant encoding
     {"ev":"ja3","wire":[..],"ja3":"...","ja3_again":"...","ja3_reparsed":"..."}                                     *)
EXTENDS TlsWire, Ja3, Json, IOUtils, TLCExt
T == ndJsonDeserialize(IOEnv.TRACE_FILE)
VARIABLE l
Report(ok, what) == IF ok THEN TRUE ELSE PrintT(what)

\* RFC 8446 4.1.4: a HelloRetryRequest is sent as a ServerHello (type 2).  The type octet is judged by a clause of its own so
\* that the rest of the layout is still compared when it differs.
IsHrr(e) == e.kind = "hello_retry_request"
CheckMsg(e) ==
  /\ Report(~IsHrr(e) \/ e.wire[1] = 2, <<"BAD", "hello-retry-request-handshake-type-is-not-server-hello", l>>)
  /\ Report((IF IsHrr(e) THEN <<2>> \o Tail(e.wire) ELSE e.wire) = Enc(e.kind, e.abs), <<"BAD", "layout-differs-from-specification", l>>)
  /\ Report(e.back_same, <<"BAD", "conformant-encoding-not-recovered", l>>)
  /\ Report(e.again_same, <<"BAD", "second-compose-differs", l>>)
\* a second conformant encoding built by the harness (SSL 2.0 three-byte header with padding; a hello with an empty extensions block): it must be what the
\* specification prescribes for the abstract value, the parser must accept all of it and recover that value
CheckAlt(e) ==
  /\ Report(e.wire = EncAlt(e.form, e.kind, e.abs, e.pad), <<"BAD", "harness-alternative-encoding-is-not-the-specified-one", l>>)
  /\ Report(e.parse = "ok" /\ e.n = Len(e.wire), <<"BAD", "conformant-encoding-rejected", l>>)
  /\ Report(e.parse # "ok" \/ e.back_same, <<"BAD", "conformant-encoding-not-recovered", l>>)
CheckJa3(e) ==
  LET Match(kg, ds) == e.ja3 = Ja3Variant2(e.wire, kg, ds, FALSE) \/ e.ja3 = Ja3Variant2(e.wire, kg, ds, TRUE) IN
  /\ Report(e.ja3 = Ja3Variant2(e.wire, FALSE, FALSE, FALSE) \/ ~Match(FALSE, FALSE), <<"DEV", "ja3-drops-one-byte-grease-point-formats", l>>)
  /\ Report(Match(FALSE, FALSE),
            <<"BAD", IF Match(TRUE, FALSE) THEN "ja3-grease-cipher-kept"
                     ELSE IF Match(FALSE, TRUE) THEN "ja3-scsv-omitted"
                     ELSE IF Match(TRUE, TRUE) THEN "ja3-grease-cipher-kept-and-scsv-omitted"
                     ELSE "ja3-differs-from-published-algorithm", l>>)
  /\ Report(e.ja3 = e.ja3_again /\ e.ja3 = e.ja3_reparsed, <<"BAD", "ja3-not-a-function-of-the-message", l>>)
Init == l = 1
Next == l <= Len(T) /\ (CASE T[l].ev = "msg" -> CheckMsg(T[l]) [] T[l].ev = "alt" -> CheckAlt(T[l]) [] OTHER -> CheckJa3(T[l])) /\ l' = l + 1
Spec == Init /\ [][Next]_l
AllConsumed == TLCGet("stats").diameter = Len(T) + 1
=============================================================================
