---------------------------- MODULE Trace_TlsWire ----------------------------
(* C06 and C15, code -> specification (and replay of TLC-generated hellos):
     {"ev":"msg","kind":..,"abs":{...},"wire":[..],"back_same":bool,"origin":..}      compose vs reference, parse recovers
     {"ev":"ja3","wire":[..],"ja3":"...","ja3_again":"...","ja3_reparsed":"..."}                                     *)
EXTENDS TlsWire, Ja3, Json, IOUtils, TLCExt
T == ndJsonDeserialize(IOEnv.TRACE_FILE)
VARIABLE l
Report(ok, what) == IF ok THEN TRUE ELSE PrintT(what)

CheckMsg(e) ==
  /\ Report(e.wire = Enc(e.kind, e.abs), <<"BAD", "layout-differs-from-specification", l>>)
  /\ Report(e.back_same, <<"BAD", "conformant-encoding-not-recovered", l>>)
  /\ Report(e.again_same, <<"BAD", "second-compose-differs", l>>)
CheckJa3(e) ==
  LET Match(kg, ds) == e.ja3 = Ja3Variant2(e.wire, kg, ds, FALSE) \/ e.ja3 = Ja3Variant2(e.wire, kg, ds, TRUE) IN
  /\ Report(e.ja3 = Ja3Variant2(e.wire, FALSE, FALSE, FALSE) \/ ~Match(FALSE, FALSE), <<"DEV", "ja3-drops-one-byte-grease-point-formats", l>>)
  /\ Report(Match(FALSE, FALSE),
            <<"BAD", IF Match(TRUE, FALSE) THEN "ja3-grease-cipher-kept"
                     ELSE IF Match(FALSE, TRUE) THEN "ja3-scsv-omitted"
                     ELSE IF Match(TRUE, TRUE) THEN "ja3-grease-cipher-kept-and-scsv-omitted"
                     ELSE "ja3-differs-from-published-algorithm", l>>)
  /\ Report(e.ja3 = e.ja3_again /\ e.ja3 = e.ja3_reparsed, <<"BAD", "ja3-not-a-function-of-the-message", l>>)
Init == l = 1
Next == l <= Len(T) /\ (IF T[l].ev = "msg" THEN CheckMsg(T[l]) ELSE CheckJa3(T[l])) /\ l' = l + 1
Spec == Init /\ [][Next]_l
AllConsumed == TLCGet("stats").diameter = Len(T) + 1
=============================================================================
