---------------------------- MODULE Trace_Vector ----------------------------
(* C12, code -> specification.  A trace file holds many edit histories of real vectors.
     {"ev":"begin","tid":t,"cls":..,"minb":..,"maxb":..,"sep":..,"width":..,"items":[[id,size],..]}
     {"ev":"op","tid":t,"op":[name,i,j,[id,size],[[id,size],..]],"res":..,"items":[..],
      "tracked":..,"body":..,"prefix":..}
   The model state is the content the intent specification (VectorOps) says the vector
   must hold.  Every op line is classified; a line that disagrees is printed as
   <<"BAD", clause, line>> and the model then RESYNCHRONISES on the observed content so
   that the rest of the history is still checked. *)
EXTENDS Integers, Sequences, Json, IOUtils, TLC, TLCExt

T == ndJsonDeserialize(IOEnv.TRACE_FILE)
V(mn, mx) == INSTANCE VectorOps WITH MinB <- mn, MaxB <- mx

VARIABLES l, items, beg
vars == <<l, items, beg>>

Report(ok, what) == IF ok THEN TRUE ELSE PrintT(what)
RECURSIVE SumTo(_, _)
SumTo(s, i) == IF i = 0 THEN 0 ELSE SumTo(s, i - 1) + s[i][2]
Sum(s) == SumTo(s, Len(s))
Body(s, sep) == Sum(s) + sep * (IF Len(s) > 1 THEN Len(s) - 1 ELSE 0)
RECURSIVE Pow256(_)
Pow256(w) == IF w >= 4 THEN 2147483647 ELSE IF w = 0 THEN 1 ELSE 256 * Pow256(w - 1)   \* TLC integers are 32 bit
LenErr(r) == r \in {"NotEnoughData", "TooMuchData"}

Init == l = 1 /\ items = <<>> /\ beg = 0

Begin == /\ l <= Len(T) /\ T[l].ev = "begin"
         /\ LET e == T[l] IN
            /\ Report(e.minb <= Sum(e.items) /\ Sum(e.items) <= e.maxb, <<"BAD", "begin-out-of-bounds", l>>)
            /\ items' = e.items /\ beg' = l /\ l' = l + 1

Op == /\ l <= Len(T) /\ T[l].ev = "op"
      /\ LET e == T[l]
             b == T[beg]
             model == V(b.minb, b.maxb)!Outcome(e.op, items)
             \* an exception raised by the items themselves (e.g. an __eq__ that raises inside remove)
             \* is what a plain list would raise too: the edit must then change nothing
             pyerr == e.listres \notin {"ok", "IndexError", "ValueError"}
             exp == IF pyerr THEN <<items, e.listres>> ELSE model
             ask == V(b.minb, b.maxb)!Ask(e.op, items)
         IN
         \* 0. cross-check of PySeq against CPython: the model's list semantics agree with a real list
         /\ Report(pyerr \/ (IF ask.k = "err" THEN e.listres = ask.v ELSE e.listres = "ok" /\ e.listitems = ask.v),
                   <<"DEV", "model-differs-from-plain-list", l>>)
         \* 1. the content is what a plain list would hold after the edits that succeeded
         /\ Report(e.items = exp[1],
                   <<"BAD", IF exp[2] = "ok" THEN "content" ELSE "refused-edit-changed-content", l>>)
         \* 2. the result: accepted / refused with a data-length error / Python's own error
         /\ Report(e.res = exp[2] \/ (LenErr(e.res) /\ LenErr(exp[2])),
                   <<"BAD", IF LenErr(exp[2]) THEN "out-of-bounds-edit-not-refused"
                            ELSE IF LenErr(e.res) THEN "in-bounds-edit-refused" ELSE "result", l>>)
         /\ Report(e.res = exp[2] \/ ~(LenErr(e.res) /\ LenErr(exp[2])), <<"DEV", "length-error-kind", l>>)
         \* 3. whatever happened, the vector is within its protocol bounds
         /\ Report(b.minb <= Sum(e.items) /\ Sum(e.items) <= b.maxb, <<"BAD", "bounds", l>>)
         \* 4. the composed prefix equals the number of body bytes and fits its width;
         \*    the body is exactly the encoding of the items held (e.body < 0: compose raised)
         /\ Report(~b.checkbody \/ e.body = Body(e.items, b.sep), <<"BAD", "body-is-not-the-items", l>>)
         /\ Report(b.width = 0 \/ (e.prefix = e.body /\ e.body < Pow256(b.width)), <<"BAD", "prefix", l>>)
         \* 5. anchor state: the incrementally tracked size (checked by a probe in the harness)
         /\ Report(e.tracked = Sum(e.items), <<"DRIFT", "tracked", l>>)
         /\ items' = e.items /\ l' = l + 1 /\ UNCHANGED beg

Next == Begin \/ Op
Spec == Init /\ [][Next]_vars
AllConsumed == TLCGet("stats").diameter = Len(T) + 1
=============================================================================
