--------------------------- MODULE Trace_Version ---------------------------
(* C17, code -> specification.  Line 1 of the trace is the complete comparison matrix
   of the implementation (all ordered pairs of all defined versions, for <, <=, ==,
   >, >=, and hash equality); the following lines are shuffles of version lists with
   the results of sorted(), max(), min() and set().  TLC evaluates the order axioms on
   every pair and triple (one model state per matrix row) and checks every shuffle.
   Failing tuples are printed as <<"BAD", clause, ...>>; the trace is always consumed
   to the end. *)
EXTENDS VersionOps, Json, IOUtils, TLC, TLCExt

T == ndJsonDeserialize(IOEnv.TRACE_FILE)
M == T[1]
N == Len(M.codes)
Idx == 1..N
Code(i) == M.codes[i]

VARIABLES l, row
vars == <<l, row>>

Report(ok, what) == IF ok THEN TRUE ELSE PrintT(what)
B2N(b) == IF b THEN 1 ELSE 0

RowOk(a) ==
  /\ Report(~M.lt[a][a], <<"BAD", "irreflexive", Code(a), 0, 0>>)
  \* an object that took part in comparisons and sorts hashes like a fresh equal one and is found in sets of fresh ones
  /\ Report(M.hash_stable[a], <<"BAD", "hash-depends-on-object-history", Code(a), 0, 0>>)
  /\ \A b \in Idx :
       /\ Report(B2N(M.lt[a][b]) + B2N(M.eq[a][b]) + B2N(M.lt[b][a]) = 1,
                 <<"BAD", "trichotomy", Code(a), Code(b), 0>>)
       /\ Report(M.eq[a][b] = (Code(a) = Code(b)), <<"BAD", "eq-is-identity", Code(a), Code(b), 0>>)
       /\ Report(M.eq[a][b] => M.hash_eq[a][b], <<"BAD", "eq-implies-hash", Code(a), Code(b), 0>>)
       /\ Report(M.gt[a][b] = M.lt[b][a], <<"BAD", "gt-is-converse", Code(a), Code(b), 0>>)
       /\ Report(M.le[a][b] = (M.lt[a][b] \/ M.eq[a][b]), <<"BAD", "le-consistent", Code(a), Code(b), 0>>)
       /\ Report(M.ge[a][b] = (M.lt[b][a] \/ M.eq[a][b]), <<"BAD", "ge-consistent", Code(a), Code(b), 0>>)
       /\ Report(MustLess(Code(a), Code(b)) => M.lt[a][b], <<"BAD", "rank", Code(a), Code(b), 0>>)
       /\ \A c \in Idx :
            Report(M.lt[a][b] /\ M.lt[b][c] => M.lt[a][c], <<"BAD", "transitive", Code(a), Code(b), Code(c)>>)

IsPermOf(s, t) == /\ Len(s) = Len(t)
                  /\ \A x \in Idx : Cardinality({i \in 1..Len(s) : s[i] = x}) = Cardinality({i \in 1..Len(t) : t[i] = x})

ShuffleOk(e) ==
  LET s == e.sorted IN
  /\ Report(IsPermOf(s, e.order), <<"BAD", "sorted-is-permutation", l, 0, 0>>)
  /\ Report(\A i, j \in 1..Len(s) : i < j => ~M.lt[s[j]][s[i]], <<"BAD", "sorted-ordered", l, 0, 0>>)
  /\ Report(\A i, j \in 1..Len(s) : MustLess(Code(s[i]), Code(s[j])) => i < j, <<"BAD", "sorted-rank", l, 0, 0>>)
  /\ Report(\A i \in 1..Len(e.order) : ~M.lt[e.max][e.order[i]], <<"BAD", "max-maximal", l, 0, 0>>)
  /\ Report(\A i \in 1..Len(e.order) : ~M.lt[e.order[i]][e.min], <<"BAD", "min-minimal", l, 0, 0>>)
  /\ Report(e.setlen = Cardinality({e.order[i] : i \in 1..Len(e.order)}), <<"BAD", "set-size", l, 0, 0>>)
  \* all shuffles of one group (same multiset) give the same answers as the group's first shuffle
  /\ LET f == T[e.first] IN
       Report(f.sorted = s /\ f.max = e.max /\ f.min = e.min /\ f.setlen = e.setlen,
              <<"BAD", "arrival-order-dependent", l, e.first, 0>>)

Init == l = 1 /\ row = 1

CheckRow == /\ l = 1 /\ row <= N
            /\ RowOk(row)
            /\ row' = row + 1
            /\ l' = IF row = N THEN 2 ELSE 1

CheckShuffle == /\ l > 1 /\ l <= Len(T)
                /\ T[l].ev = "shuffle"
                /\ ShuffleOk(T[l])
                /\ l' = l + 1 /\ UNCHANGED row

Next == CheckRow \/ CheckShuffle
Spec == Init /\ [][Next]_vars

Consumed == l = Len(T) + 1 /\ row = N + 1
AllConsumed == TLCGet("stats").diameter = N + Len(T)
=============================================================================
