------------------------------- MODULE Vector -------------------------------
(* C12 - intent state machine: see VectorOps for the atomic outcome of an operation. *)
EXTENDS VectorOps

VARIABLES items, res
vvars == <<items, res>>

Bounded == MinB <= SumSizes(items) /\ SumSizes(items) <= MaxB

Do(op) == /\ items' = Outcome(op, items)[1]
          /\ res'   = Outcome(op, items)[2]
=============================================================================
