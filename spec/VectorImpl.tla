----------------------------- MODULE VectorImpl -----------------------------
(* C12 - the vector AS CODED in cryptoparser/common/base.py (ArrayBase + the mixin methods
   of collections.abc.MutableSequence): the content `items`, the incrementally maintained
   byte count `tracked` (_items_size), one action per primitive the code executes.

   Every mutation goes through _update_items_size (check the bounds against
   tracked - deleted + inserted, then commit) followed by the list operation.  Composite
   operations are what MutableSequence makes of them unless ArrayBase overrides them:
     append  = insert(len, x)             pop(i) = self[i]; del self[i]
     remove  = del self[self.index(x)]    iadd   = extend
   and, depending on the two switches below,
     extend  = one slice assignment       | a loop of append   (each can be refused)
     clear   = one slice deletion         | a loop of pop() until IndexError
     reverse = reversal of the list       | a loop of pairwise swaps through __setitem__
   Switches (the current tree is TRUE/TRUE; FALSE reproduces the code before a fix and is
   kept as a specification-level mutant whose expected result is a counterexample):
     SliceSum - a slice is accounted with the sum of its items (FALSE: with
                get_item_size(<the list>), i.e. ONE item for fixed-size items, an
                AttributeError for parsable items)
     Atomic   - bulk edits are single checked steps (FALSE: the mixin loops)

   Checked: Sync (tracked = real size whenever no operation is in progress) and the
   refinement VectorImpl => Vector (every completed operation is the atomic intent
   operation). *)
EXTENDS VectorOps, TLC

CONSTANTS Items,        \* set of <<id, size>> pairs available to the environment
          FixedSize,    \* 0 = items have individual sizes (parsable); k > 0 = fixed-size vector
          SliceSum, Atomic,
          MaxXs,        \* longest argument list of extend
          MaxSliceXs    \* longest argument list of a slice assignment

VARIABLES items, tracked, res, op, pend, start, startres
vars == <<items, tracked, res, op, pend, start, startres>>

-----------------------------------------------------------------------------
(* primitives: pure functions from a state record to an outcome record *)
St == [items |-> items, tracked |-> tracked]

Fail(st, e) == [ok |-> FALSE, err |-> e, st |-> st]
Good(st)    == [ok |-> TRUE, err |-> "ok", st |-> st]

Update(st, del, ins, newitems) ==                      \* _update_items_size, then the list edit
  LET t == st.tracked - del + ins IN
  IF t < MinB THEN Fail(st, "NotEnoughData")
  ELSE IF t > MaxB THEN Fail(st, "TooMuchData")
  ELSE Good([items |-> newitems, tracked |-> t])

\* size the code attributes to a slice (list) argument
SliceSize(s) == IF SliceSum THEN SumSizes(s)
                ELSE IF FixedSize > 0 THEN FixedSize       \* get_item_size(list) == item_size
                ELSE -1                                     \* len(list.compose()) -> AttributeError

PIns(st, i, x) == Update(st, 0, Size(x), PyInsertAt(st.items, i, x))
PDelIdx(st, i) == IF ~InRange(i, Len(st.items)) THEN Fail(st, "IndexError")
                  ELSE Update(st, Size(st.items[Norm(i, Len(st.items)) + 1]), 0, PyRemoveAt(st.items, i))
PSetIdx(st, i, x) == IF ~InRange(i, Len(st.items)) THEN Fail(st, "IndexError")
                     ELSE Update(st, Size(st.items[Norm(i, Len(st.items)) + 1]), Size(x), PyReplaceAt(st.items, i, x))
PDelSlice(st, a, b) == LET d == SliceSize(SliceOf(st.items, a, b)) IN
                       IF d < 0 THEN Fail(st, "AttributeError")
                       ELSE Update(st, d, 0, Splice(st.items, a, b, <<>>))
PSetSlice(st, a, b, xs) == LET d == SliceSize(SliceOf(st.items, a, b)) n == SliceSize(xs) IN
                           IF d < 0 \/ n < 0 THEN Fail(st, "AttributeError")
                           ELSE Update(st, d, n, Splice(st.items, a, b, xs))

\* extended slices take the same path in the code: the items selected by self._items[index] are the ones removed;
\* list(self._items)[index] = value raises ValueError for a wrong number of values before anything is changed
PDelX(st, a, b, k) == LET d == SliceSize(XSel(st.items, a, b, k)) IN
                      IF d < 0 THEN Fail(st, "AttributeError")
                      ELSE Update(st, d, 0, XDel(st.items, a, b, k))
PSetX(st, a, b, k, xs) == IF Len(xs) # Len(XPos(st.items, a, b, k)) THEN Fail(st, "ValueError")
                          ELSE LET d == SliceSize(XSel(st.items, a, b, k)) n == SliceSize(xs) IN
                               IF d < 0 \/ n < 0 THEN Fail(st, "AttributeError")
                               ELSE Update(st, d, n, XSet(st.items, a, b, k, xs))

Prim(st, p) ==                                          \* p = <<name, i, j, x, xs>>
  CASE p[1] = "insert"   -> PIns(st, p[2], p[4])
    [] p[1] = "append"   -> PIns(st, Len(st.items), p[4])
    [] p[1] = "delitem"  -> PDelIdx(st, p[2])
    [] p[1] = "setitem"  -> PSetIdx(st, p[2], p[4])
    [] p[1] = "delslice" -> PDelSlice(st, p[2], p[3])
    [] p[1] = "setslice" -> PSetSlice(st, p[2], p[3], p[5])
    [] p[1] = "delxslice" -> PDelX(st, p[2], p[3], p[4][1])
    [] p[1] = "setxslice" -> PSetX(st, p[2], p[3], p[4][1], p[5])
    [] p[1] = "rev"      -> Good([st EXCEPT !.items = Rev(st.items)])

-----------------------------------------------------------------------------
(* how a public operation is turned into primitives *)

Program(o, s) ==
  LET name == o[1] i == o[2] j == o[3] x == o[4] xs == o[5] n == Len(s) IN
  CASE name \in {"insert", "append", "delitem", "setitem", "delslice", "setslice", "delxslice", "setxslice"} -> <<o>>
    [] name = "pop"     -> <<P("delitem", i, 0, None, <<>>)>>          \* self[i] raises the same IndexError
    [] name = "remove"  -> IF FirstIndexOf(s, x) < 0 THEN <<P("valueerror", 0, 0, None, <<>>)>>
                           ELSE <<P("delitem", FirstIndexOf(s, x), 0, None, <<>>)>>
    [] name \in {"extend", "iadd"} ->
          IF Atomic THEN <<P("setslice", n, n, None, xs)>>
          ELSE [k \in 1..Len(xs) |-> P("append", 0, 0, xs[k], <<>>)]
    [] name = "clear"   -> IF Atomic THEN <<P("delslice", 0, n, None, <<>>)>> ELSE <<P("poploop", 0, 0, None, <<>>)>>
    [] name = "reverse" ->
          IF Atomic THEN <<P("rev", 0, 0, None, <<>>)>>
          ELSE LET half == n \div 2 IN
               [k \in 1..(2 * half) |->
                   LET sw == (k + 1) \div 2 - 1 IN              \* swap number, 0-based
                   IF k % 2 = 1 THEN P("setitem", sw, 0, s[n - sw], <<>>)
                                ELSE P("setitem", n - sw - 1, 0, s[sw + 1], <<>>)]

Ops(s) == OpsOver(s, Items, MaxXs, MaxSliceXs)

-----------------------------------------------------------------------------
InitLists == {s \in UNION {[1..k -> Items] : k \in 0..2} : Valid(s)}

Init == /\ items \in InitLists /\ tracked = SumSizes(items)
        /\ res = "ok" /\ op = P("new", 0, 0, None, <<>>) /\ pend = <<>>
        /\ start = items /\ startres = "ok"

Begin(o) == /\ pend = <<>>
            /\ op' = o /\ start' = items /\ startres' = res
            /\ pend' = Program(o, items)
            /\ IF pend' = <<>> THEN res' = "ok" ELSE res' = res     \* e.g. extend([]) does nothing
            /\ UNCHANGED <<items, tracked>>

Step == /\ pend # <<>>
        /\ LET p == Head(pend) IN
           IF p[1] = "valueerror" THEN res' = "ValueError" /\ pend' = <<>> /\ UNCHANGED <<items, tracked>>
           ELSE IF p[1] = "poploop" THEN
                IF items = <<>> THEN res' = "ok" /\ pend' = <<>> /\ UNCHANGED <<items, tracked>>   \* IndexError ends the loop
                ELSE LET r == PDelIdx(St, -1) IN
                     /\ items' = r.st.items /\ tracked' = r.st.tracked
                     /\ IF r.ok THEN pend' = pend /\ res' = res ELSE pend' = <<>> /\ res' = r.err
           ELSE LET r == Prim(St, p) IN
                /\ items' = r.st.items /\ tracked' = r.st.tracked
                /\ IF r.ok THEN pend' = Tail(pend) /\ res' = (IF Tail(pend) = <<>> THEN "ok" ELSE res)
                   ELSE pend' = <<>> /\ res' = r.err
        /\ UNCHANGED <<op, start, startres>>

Next == (\E o \in Ops(items) : Begin(o)) \/ Step
Spec == Init /\ [][Next]_vars

-----------------------------------------------------------------------------
Sync == pend = <<>> => tracked = SumSizes(items)
BoundedAtRest == pend = <<>> => Valid(items)
NoCrash == res # "AttributeError"

visItems == IF pend = <<>> THEN items ELSE start
visRes   == IF pend = <<>> THEN res ELSE startres
Intent == INSTANCE Vector WITH items <- visItems, res <- visRes
\* every completed operation is the atomic intent operation with the same arguments
Refines == [][Intent!Do(op')]_<<visItems, visRes>>
=============================================================================
