------------------------------- MODULE VectorOps ----------------------------
(* C12 - intent: a length-prefixed protocol vector is a Python list whose encoded body
   size stays within [MinB, MaxB]; every operation of the mutable-sequence interface is
   ATOMIC: it either yields exactly what a plain list would hold, or is refused with a
   data-length error and changes nothing.

   An item is a pair <<id, size>>: its identity and the number of body bytes it encodes
   to.  An operation is a tuple <<name, i, j, x, xs>> (unused positions are 0 / <<>>).
   Written from the property text and the Python data model, not from base.py. *)
EXTENDS PySeq, FiniteSets

CONSTANTS MinB, MaxB

Size(x) == x[2]
\* by index, not by Head / Tail: Tail copies the sequence, which makes the sum quadratic on the long vectors of real traces
RECURSIVE SumUpTo(_, _)
SumUpTo(s, i) == IF i = 0 THEN 0 ELSE SumUpTo(s, i - 1) + Size(s[i])
SumSizes(s) == SumUpTo(s, Len(s))

\* what the operation asks for: a new content, or a Python-level error
Ask(op, s) ==
  LET name == op[1] i == op[2] j == op[3] x == op[4] xs == op[5] n == Len(s) IN
  CASE name = "insert"   -> [k |-> "new", v |-> PyInsertAt(s, i, x)]
    [] name = "append"   -> [k |-> "new", v |-> Append(s, x)]
    [] name = "extend"   -> [k |-> "new", v |-> s \o xs]
    [] name = "iadd"     -> [k |-> "new", v |-> s \o xs]
    [] name = "pop"      -> IF InRange(i, n) THEN [k |-> "new", v |-> PyRemoveAt(s, i)] ELSE [k |-> "err", v |-> "IndexError"]
    [] name = "delitem"  -> IF InRange(i, n) THEN [k |-> "new", v |-> PyRemoveAt(s, i)] ELSE [k |-> "err", v |-> "IndexError"]
    [] name = "setitem"  -> IF InRange(i, n) THEN [k |-> "new", v |-> PyReplaceAt(s, i, x)] ELSE [k |-> "err", v |-> "IndexError"]
    [] name = "remove"   -> IF FirstIndexOf(s, x) >= 0 THEN [k |-> "new", v |-> PyRemoveAt(s, FirstIndexOf(s, x))]
                            ELSE [k |-> "err", v |-> "ValueError"]
    [] name = "delslice" -> [k |-> "new", v |-> Splice(s, i, j, <<>>)]
    [] name = "setslice" -> [k |-> "new", v |-> Splice(s, i, j, xs)]
    \* extended slices: x carries the step as <<step, 0>>
    [] name = "delxslice" -> [k |-> "new", v |-> XDel(s, i, j, x[1])]
    [] name = "setxslice" -> IF Len(xs) # Len(XPos(s, i, j, x[1])) THEN [k |-> "err", v |-> "ValueError"]
                             ELSE [k |-> "new", v |-> XSet(s, i, j, x[1], xs)]
    [] name = "reverse"  -> [k |-> "new", v |-> Rev(s)]
    [] name = "clear"    -> [k |-> "new", v |-> <<>>]

Verdict(new) == IF SumSizes(new) < MinB THEN "NotEnoughData"
                ELSE IF SumSizes(new) > MaxB THEN "TooMuchData" ELSE "ok"

\* the atomic outcome of an operation on content s: <<content afterwards, result>>
Outcome(op, s) == LET a == Ask(op, s) IN
                  IF a.k = "err" THEN <<s, a.v>>
                  ELSE IF Verdict(a.v) = "ok" THEN <<a.v, "ok">> ELSE <<s, Verdict(a.v)>>

IsLengthError(r) == r \in {"NotEnoughData", "TooMuchData"}

-----------------------------------------------------------------------------
(* the universe of operations offered in a state with content s (used by the model
   checking configurations and by the case generator) *)
None == <<0, 0>>
P(name, i, j, x, xs) == <<name, i, j, x, xs>>
Idx(s) == (0 - Len(s) - 1)..(Len(s) + 1)
XB == {Open, 0, 1, -1}                           \* bounds offered for extended slices
Steps == {-1, -2, 2}
ListsUpTo(Its, k) == UNION {[1..n -> Its] : n \in 0..k}
OpsOver(s, Its, MaxXs, MaxSliceXs) ==
          {P("insert", i, 0, x, <<>>) : i \in Idx(s), x \in Its}
     \cup {P("append", 0, 0, x, <<>>) : x \in Its}
     \cup {P("extend", 0, 0, None, xs) : xs \in ListsUpTo(Its, MaxXs)}
     \cup {P("iadd", 0, 0, None, xs) : xs \in ListsUpTo(Its, MaxXs)}
     \cup {P("pop", i, 0, None, <<>>) : i \in Idx(s)}
     \cup {P("delitem", i, 0, None, <<>>) : i \in Idx(s)}
     \cup {P("setitem", i, 0, x, <<>>) : i \in Idx(s), x \in Its}
     \cup {P("remove", 0, 0, x, <<>>) : x \in Its}
     \cup {P("delslice", i, j, None, <<>>) : i \in Idx(s), j \in Idx(s)}
     \cup {P("setslice", i, j, None, xs) : i \in Idx(s), j \in Idx(s), xs \in ListsUpTo(Its, MaxSliceXs)}
     \cup {P("delxslice", i, j, <<k, 0>>, <<>>) : i \in XB, j \in XB, k \in Steps}
     \cup {P("setxslice", i, j, <<k, 0>>, xs) : i \in {Open, 1}, j \in {Open, 1}, k \in Steps, xs \in ListsUpTo(Its, MaxSliceXs)}
     \cup {P("reverse", 0, 0, None, <<>>), P("clear", 0, 0, None, <<>>)}
Valid(s) == MinB <= SumSizes(s) /\ SumSizes(s) <= MaxB
=============================================================================
