------------------------------ MODULE Version ------------------------------
(* C17 - arrival machine: versions arrive one by one, a consumer keeps a running
   maximum, a running minimum and an insertion-sorted list using only the comparison
   relation Less.  If Less is a strict total order the result is independent of the
   order of arrival; if it is intransitive TLC finds an arrival order that gives a
   different answer (the 7e02 > 0304 > 7f1c > 7e02 cycle of the pinned tree). *)
EXTENDS VersionOps

(* Arrival machine.  CONSTANTS are supplied by MC_Version / MC_VersionImpl. *)
CONSTANTS Universe,        \* set of codes
          Less(_, _),      \* the relation used by the consumer
          MaxArrivals      \* bound on the number of arrivals in one history

VARIABLES arrived,         \* set of codes that have arrived
          curmax, curmin,  \* running max / min kept by the consumer (0 = none yet)
          sorted           \* insertion-sorted sequence kept by the consumer

vars == <<arrived, curmax, curmin, sorted>>

Init == arrived = {} /\ curmax = 0 /\ curmin = 0 /\ sorted = <<>>

\* list.insert by linear scan with "<" only, as bisect.insort / sorted() would use it
InsertPos(s, v) == LET later == {i \in 1..Len(s) : Less(v, s[i])}
                   IN  IF later = {} THEN Len(s) + 1 ELSE CHOOSE i \in later : \A j \in later : i <= j
InsertSorted(s, v) == LET p == InsertPos(s, v)
                      IN  SubSeq(s, 1, p - 1) \o <<v>> \o SubSeq(s, p, Len(s))

Arrive(v) == /\ v \notin arrived
             /\ Cardinality(arrived) < MaxArrivals
             /\ arrived' = arrived \cup {v}
             /\ curmax' = IF curmax = 0 \/ Less(curmax, v) THEN v ELSE curmax      \* max(): keeps first of equals
             /\ curmin' = IF curmin = 0 \/ Less(v, curmin) THEN v ELSE curmin
             /\ sorted' = InsertSorted(sorted, v)

Next == \E v \in Universe : Arrive(v)
Spec == Init /\ [][Next]_vars

\* The answer must not depend on the order of arrival: it is determined by the set.
MaxIsMaximal == curmax # 0 => \A x \in arrived : x = curmax \/ Less(x, curmax)
MinIsMinimal == curmin # 0 => \A x \in arrived : x = curmin \/ Less(curmin, x)
SortedIsSorted == \A i, j \in 1..Len(sorted) : i < j => Less(sorted[i], sorted[j])
SortedIsArrived == {sorted[i] : i \in 1..Len(sorted)} = arrived /\ Len(sorted) = Cardinality(arrived)
RespectsProperty == \A i, j \in 1..Len(sorted) : MustLess(sorted[i], sorted[j]) => i < j
=============================================================================
