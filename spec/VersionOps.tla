------------------------------ MODULE VersionOps ---------------------------
(* C17 - TLS protocol versions form a strict total order consistent with equality.

   Written from the property text, not from version.py:
     SSL 2.0 < SSL 3.0 < TLS 1.0 < 1.1 < 1.2 < every experimental and draft TLS 1.3
     version < TLS 1.3, drafts ordered by draft number.
   The relative order of Google experiments among themselves and against drafts
   is left open by the property; any strict total order is accepted there.

   A version is its 16-bit wire code.  A comparison relation is a function
   R \in [Codes \X Codes -> BOOLEAN] ("a < b").  The module states the order
   axioms over an arbitrary relation and an "arrival" state machine: versions
   arrive one by one, a consumer keeps a running maximum, a running minimum and
   an insertion-sorted list using only R.  If R is a strict total order the
   result is independent of the order of arrival; if R is intransitive TLC
   finds an arrival order that gives a different answer. *)
EXTENDS Naturals, Sequences, FiniteSets

Major(c) == c \div 256
Minor(c) == c % 256
IsDraft(c)  == Major(c) = 127
IsGoogle(c) == Major(c) = 126
IsPre(c)    == IsDraft(c) \/ IsGoogle(c)

SSL2 == 2
SSL3 == 768
TLS10 == 769
TLS11 == 770
TLS12 == 771
TLS13 == 772

Tier(c) == CASE c = SSL2  -> 0
             [] c = SSL3  -> 1
             [] c = TLS10 -> 2
             [] c = TLS11 -> 3
             [] c = TLS12 -> 4
             [] IsPre(c)  -> 5
             [] c = TLS13 -> 6
             [] OTHER     -> 7   \* a future final version: above everything known

\* What the property fixes: a must be below b.
MustLess(a, b) == \/ Tier(a) < Tier(b)
                  \/ IsDraft(a) /\ IsDraft(b) /\ Minor(a) < Minor(b)

\* One completion of the open part (used for the design-level model): experiments
\* below drafts, experiments by number.
RankLess(a, b) == \/ MustLess(a, b)
                  \/ IsGoogle(a) /\ IsDraft(b)
                  \/ IsGoogle(a) /\ IsGoogle(b) /\ Minor(a) < Minor(b)

-----------------------------------------------------------------------------
(* Order axioms over a relation given as operators LT(_,_), EQ(_,_) on a set S *)

Irreflexive(S, LT(_, _))              == \A a \in S : ~LT(a, a)
Trichotomous(S, LT(_, _), EQ(_, _))   == \A a, b \in S :
        (IF LT(a, b) THEN 1 ELSE 0) + (IF EQ(a, b) THEN 1 ELSE 0) + (IF LT(b, a) THEN 1 ELSE 0) = 1
Transitive(S, LT(_, _))               == \A a, b, c \in S : LT(a, b) /\ LT(b, c) => LT(a, c)
Compatible(S, LT(_, _))               == \A a, b \in S : MustLess(a, b) => LT(a, b)

\* The relation as coded on the pinned tree before the fix (version.py:76-85): Google
\* experiments were not treated as pre-release.  Kept as a specification-level mutant.
PrefixLess(a, b) == IF Major(a) = Major(b) THEN Minor(a) < Minor(b)
                    ELSE IF IsDraft(a) THEN b = TLS13
                    ELSE IF IsDraft(b) THEN a # TLS13
                    ELSE Major(a) < Major(b)
=============================================================================
