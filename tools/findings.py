#!/venv/bin/python
"""tools/findings.py add <property> <text-prefix>  - (manual, never at check time) add every replay of the
property under /verif/replays/<property>/ to known_findings.json as a recorded finding."""
import glob
import json
import os
import sys

VERIF = os.path.dirname(os.path.dirname(os.path.abspath(__file__)))
prop = sys.argv[2]
path = os.path.join(VERIF, 'known_findings.json')
data = json.load(open(path))
have = {e['key'] for e in data['findings']}
for f in sorted(glob.glob(os.path.join(VERIF, 'replays', prop, '*.json'))):
    r = json.load(open(f))
    if r['key'] in have:
        continue
    witness = r['case']
    if isinstance(witness, dict):
        witness = {k: witness[k] for k in list(witness)[:8]}
    data['findings'].append({'key': r['key'], 'property': prop, 'text': r['text'], 'witness': witness})
    print('added', r['key'])
json.dump(data, open(path, 'w'), indent=1, default=repr)
