#!/venv/bin/python
"""tools/mutant.py verify <dir-with-m?.diff> <name>   - confirm a seeded change in a scratch worktree
   tools/mutant.py run <seeded/id> [props...]         - apply to /repo, run ./check, undo

verify: in a fresh scratch worktree of /repo HEAD (under /tmp, removed afterwards): demo passes clean,
patch applies, full suite still 637 passed / 7 failed, demo fails with the patch.
Results are stored in seeded/<name>/meta.json."""
import json
import os
import shutil
import subprocess
import sys
import time

VERIF = os.path.dirname(os.path.dirname(os.path.abspath(__file__)))


def sh(cmd, cwd=None, env=None, timeout=3600):
    p = subprocess.run(cmd, shell=True, cwd=cwd, env=env, stdout=subprocess.PIPE, stderr=subprocess.STDOUT,
                       universal_newlines=True, timeout=timeout)
    return p.returncode, p.stdout


def verify(src, k, name):
    wt = '/tmp/mutwt_%s' % name
    sh('git -C /repo worktree remove --force %s' % wt)
    rc, out = sh('git -C /repo worktree add -q --detach %s HEAD' % wt)
    assert rc == 0, out
    res = {}
    try:
        env = dict(os.environ, PYTHONPATH=wt)
        demo = os.path.join(src, 'm%s_demo.py' % k)
        diff = os.path.join(src, 'm%s.diff' % k)
        rc, out = sh('/venv/bin/python %s' % demo, cwd=wt, env=env)
        res['demo_clean_rc'] = rc
        rc, out = sh('git apply %s' % diff, cwd=wt)
        res['applies'] = rc == 0
        if rc != 0:
            rc, out = sh('git apply -3 %s' % diff, cwd=wt)
            res['applies_3way'] = rc == 0
            res['apply_msg'] = out[-300:]
        rc, out = sh('/venv/bin/python -m pytest -q -p no:cacheprovider --timeout=900 2>&1 | tail -1', cwd=wt, env=env)
        res['suite'] = out.strip()
        rc, out = sh('/venv/bin/python %s' % demo, cwd=wt, env=env)
        res['demo_mutant_rc'] = rc
        res['demo_mutant_out'] = out.strip()[-300:]
        rc, out = sh('git diff', cwd=wt)
        res['diff'] = out
    finally:
        sh('git -C /repo worktree remove --force %s' % wt)
    res['confirmed'] = (res.get('demo_clean_rc') == 0 and res.get('demo_mutant_rc') == 1 and
                        '637 passed' in res.get('suite', '') and '7 failed' in res.get('suite', ''))
    return res


def cmd_verify(src, name):
    for k in ('1', '2'):
        if not os.path.exists(os.path.join(src, 'm%s.diff' % k)):
            continue
        mid = '%s-m%s' % (name, k)
        res = verify(src, k, mid)
        print(mid, 'confirmed' if res['confirmed'] else 'NOT CONFIRMED',
              {x: res[x] for x in res if x not in ('diff',)})
        if res['confirmed']:
            d = os.path.join(VERIF, 'seeded', mid)
            os.makedirs(d, exist_ok=True)
            with open(os.path.join(d, 'patch.diff'), 'w') as f:
                f.write(res['diff'])
            shutil.copy(os.path.join(src, 'm%s_demo.py' % k), os.path.join(d, 'demo.py'))
            info = json.load(open(os.path.join(src, 'm%s.json' % k)))
            meta = {'id': mid, 'property': info.get('property', name), 'summary': info.get('summary'),
                    'needs': info.get('needs'), 'files': info.get('files'),
                    'confirmed': {'suite_with_patch': res['suite'], 'demo_clean_rc': 0, 'demo_patched_rc': 1,
                                  'demo_patched_out': res['demo_mutant_out'],
                                  'how': 'scratch worktree of /repo HEAD under /tmp, removed afterwards; '
                                         'PYTHONPATH=<worktree> /venv/bin/python -m pytest -q -p no:cacheprovider'},
                    'checks': {}}
            with open(os.path.join(d, 'meta.json'), 'w') as f:
                json.dump(meta, f, indent=1)


def cmd_run(sid, props, scratch=False):
    """scratch=True: apply in a scratch worktree and point the checks at it with VERIF_REPO, so /repo stays
    untouched and several seeded changes (of different properties) can run side by side"""
    d = os.path.join(VERIF, 'seeded', sid)
    meta = json.load(open(os.path.join(d, 'meta.json')))
    props = props or [meta['property']]
    if scratch:
        repo = '/tmp/mutrun_%s' % sid
        sh('git -C /repo worktree remove --force %s' % repo)
        rc, out = sh('git -C /repo worktree add -q --detach %s HEAD' % repo)
        assert rc == 0, out
        env = dict(os.environ, VERIF_REPO=repo)
    else:
        repo = '/repo'
        env = dict(os.environ)
        rc, out = sh('git -C /repo status --porcelain')
        assert out.strip() == '', '/repo not clean: ' + out
    rc, out = sh('git -C %s apply %s' % (repo, os.path.join(d, 'patch.diff')))
    if rc != 0:
        rc, out = sh('git -C %s apply -3 %s' % (repo, os.path.join(d, 'patch.diff')))
    try:
        assert rc == 0, out
        for p in props:
            t0 = time.time()
            rc, out = sh('./check %s --tier quick' % p, cwd=VERIF, env=env)
            viol = [l for l in out.splitlines() if l.startswith('VIOLATION')]
            meta['checks'][p] = {'rc': rc, 'violations': len(viol), 'first': viol[0][:300] if viol else None,
                                 'wall_s': round(time.time() - t0, 1)}
            print(sid, p, 'rc=%d' % rc, 'violations=%d' % len(viol),
                  (viol[0][:200] if viol else out.strip().splitlines()[-1][:200]), flush=True)
    finally:
        if scratch:
            sh('git -C /repo worktree remove --force %s' % repo)
        else:
            sh('git -C /repo checkout -- .')
            rc, out = sh('git -C /repo status --porcelain')
            assert out.strip() == '', out
    if not scratch:
        # evidence/replays written during a mutant run are not evidence of the real tree
        sh('git -C %s checkout -- evidence 2>/dev/null; git -C %s clean -fdq replays' % (VERIF, VERIF))
    with open(os.path.join(d, 'meta.json'), 'w') as f:
        json.dump(meta, f, indent=1)


def cmd_runall(pattern):
    """every seeded/<id> whose id matches the regex, properties side by side (4 at a time), the changes of one
    property one after the other; evidence and replays are restored at the end"""
    import re
    from concurrent.futures import ThreadPoolExecutor
    ids = sorted(x for x in os.listdir(os.path.join(VERIF, 'seeded')) if re.search(pattern, x))
    groups = {}
    for i in ids:
        groups.setdefault(i.split('-')[0][:3], []).append(i)      # C01, C01b, C01c ... one group: they share build/ and evidence files

    def work(g):
        for sid in g:
            try:
                cmd_run(sid, [], scratch=True)
            except Exception as e:  # noqa
                print(sid, 'ERROR', repr(e)[:300], flush=True)
    with ThreadPoolExecutor(4) as ex:
        list(ex.map(work, groups.values()))
    sh('git -C %s checkout -- evidence 2>/dev/null; git -C %s clean -fdq replays' % (VERIF, VERIF))


if __name__ == '__main__':
    if sys.argv[1] == 'verify':
        cmd_verify(sys.argv[2], sys.argv[3])
    elif sys.argv[1] == 'srun':      # like run, but in a scratch worktree (VERIF_REPO), /repo untouched
        cmd_run(sys.argv[2], sys.argv[3:], scratch=True)
    elif sys.argv[1] == 'runall':
        cmd_runall(sys.argv[2])
    else:
        cmd_run(sys.argv[2], sys.argv[3:])
