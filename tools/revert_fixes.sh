#!/bin/bash
# For every fix: commit of /repo: revert it in a scratch worktree (outside /repo and /verif, removed afterwards), run the checks of the
# properties it repaired against that tree, and report whether the defect is detected again.  Results: build/revert_fixes.txt
# Not in the list (checked by hand, see DESIGN.md 13.4): 62cf968+f13d8cc (later fixes touched the same line: reverted by editing the
# line back, C03 reports consumed-is-not-declared-length), 5fecd58 and 9d4ed8e (found by the thorough tier of C03 / C02).
set -u
cd "$(dirname "$0")/.."
WT=/tmp/verif_revwt_$$
git -C /repo worktree remove --force $WT 2>/dev/null
git -C /repo worktree add -q --detach $WT HEAD || exit 2
mkdir -p build
OUT=build/revert_fixes.txt
: > $OUT
while read -r commits props; do
  [ -z "$commits" ] && continue
  git -C $WT reset -q --hard HEAD
  ok=1
  for c in ${commits//,/ }; do
    git -C $WT revert --no-commit $c >/dev/null 2>&1 || ok=0
  done
  if [ $ok = 0 ]; then echo "$commits REVERT-CONFLICT" >> $OUT; git -C $WT revert --abort 2>/dev/null; git -C $WT reset -q --hard HEAD; continue; fi
  for p in $props; do
    res=$(VERIF_REPO=$WT ./check $p --tier quick 2>&1 | grep -c '^VIOLATION')
    first=$(VERIF_REPO=$WT ./check $p --tier quick 2>&1 | grep '^VIOLATION' | head -1 | sed 's/replay=[^ ]* //' | cut -c1-160)
    echo "$commits $p violations=$res $first" >> $OUT
  done
  git -C $WT revert --abort 2>/dev/null
done <<'LIST'
5ff3ada C17
99157d4 C12
20c22b5 C13
5a5c6ac C13
097a328 C13
54549d5 C03
9547e6e C02 C03
27e6f7b C11
d67dba6 C11
3506fb7 C05 C08
a6e8373 C03
d768e47 C09
99bf83c C10
d5ea5fc C10
30ee8f1 C13
04d3e06 C13
362fe03 C12
5401c03 C12
00b61e6 C03
e1a6df9 C02
b5458b7 C02
d3d62e2 C03
6d7f41f C03
0fcde87 C02
1b9e3e3 C13
5c8484d C13
3ffa86f C13
91d31a5 C11
ec71119 C11
1d6320a C11
e261395 C10
d9ce006 C02
f070bbf C02
22ec315 C02
4fa6ad7 C02
a9072d5,0fa6cf7 C02
14915bf C02
89d22ab C02
db9150a C02
6c65dc6 C02 C05
d8de087 C02
9ba7892 C02
55f69bc C02
56ce69f C01 C05
4cc3513 C04 C06
26bcd43 C07
af06d0d C13
0228236 C08
6d4332f C09
LIST
git -C /repo worktree remove --force $WT
cat $OUT
